#!/bin/bash
# usage: tools/seedtest.sh <patch.diff> <Cxx> [tier]   -- apply a seeded change to /repo, run the check, revert.
set -u
patch=$1; prop=$2; tier=${3:-quick}
cd /repo || exit 2
if [ -n "$(git status --porcelain --untracked-files=no)" ]; then echo "/repo not clean"; exit 2; fi
git apply "$patch" || { echo "PATCH DOES NOT APPLY"; exit 2; }
cd /verif
out=$(VERIF_ROOT=/tmp/seedtest_root cargo run --release -q --offline -- check "$prop" --tier "$tier" 2>&1)
code=$?
echo "$out" | grep -E "VIOLATION|KNOWN-FINDING|signature=|MACHINERY|error(\[|:)" | head -20
echo "$out" | tail -1
echo "exit=$code"
git -C /repo checkout -- .
(cd /verif && cargo build --release -q --offline 2>/dev/null)
exit $code
