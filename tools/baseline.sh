#!/bin/bash
# run the repository's baseline suite (guard off) on a scratch worktree of /repo HEAD; prints the summary
wt=/tmp/wt/baseline
if [ ! -d $wt ]; then git -C /repo worktree add --detach $wt HEAD -q; fi
git -C $wt checkout -q --detach "$(git -C /repo rev-parse HEAD)"; git -C $wt checkout -- .; cp /repo/Cargo.lock $wt/
cd $wt && cargo nextest run --workspace --no-fail-fast --tool-config-file pb:/w/lib/nextest.toml --profile pb --test-threads 8 --offline 2>&1 | grep -E "^\s+(FAIL|Summary)" | sort -u
