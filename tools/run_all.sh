#!/bin/bash
# usage: tools/run_all.sh quick|thorough  -- runs every check of the tier, prints one line each
tier=${1:-quick}
cd "$(dirname "$0")/.." || exit 2
cargo build --release -q --offline || exit 2
for p in C01 C02 C03 C04 C05 C06 C07 C08 C09 C10 C11 C12 C13 C14 C15 C16 C17 C18 C19 C20; do
  s=$(date +%s)
  out=$(./target/release/verif check $p --tier $tier 2>&1); code=$?
  e=$(date +%s)
  echo "$p exit=$code wall=$((e-s))s $(echo "$out" | tail -1)"
  echo "$out" | grep -E "VIOLATION|KNOWN-FINDING|MACHINERY" | head -5
done
