#!/bin/bash
# usage: tools/replaytest.sh <seed dir name> <Cxx>  -- apply the seed, run the quick check, replay every violation file it wrote (expects REPRODUCED),
# revert, rebuild, replay again on the clean tree (expects NOT-REPRODUCED).
seed=$1; prop=$2
cd /repo || exit 2
if [ -n "$(git status --porcelain --untracked-files=no)" ]; then echo "/repo not clean"; exit 2; fi
git apply /verif/seeded/$seed/patch.diff || { echo "PATCH DOES NOT APPLY"; exit 2; }
cd /verif
rm -f /tmp/seedtest_root/replays/$prop-*.json
VERIF_ROOT=/tmp/seedtest_root cargo run --release -q --offline -- check $prop --tier quick > /tmp/replaytest.out 2>&1
files=$(grep -o "replay=[^ ]*" /tmp/replaytest.out | cut -d= -f2)
with=""; for f in $files; do with="$with $(./target/release/verif replay $f 2>&1 | tail -1)"; done
git -C /repo checkout -- .
cargo build --release -q --offline 2>/dev/null
without=""; for f in $files; do without="$without $(./target/release/verif replay $f 2>&1 | tail -1)"; done
echo "$seed: files=$(echo $files | wc -w) with-patch:[$with ] clean:[$without ]"
