#!/bin/bash
# confirm every seed that has no RESULT yet (sequential; uses the shared scratch worktree /tmp/wt/confirm)
exec 9>/tmp/wt/confirm.lock; flock 9
for d in /verif/seeded/*/; do
  if ! grep -q "^RESULT" $d/confirm.log 2>/dev/null; then /verif/tools/confirm_seed.sh $d; fi
done
