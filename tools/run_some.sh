#!/bin/bash
# usage: tools/run_some.sh <tier> Cxx Cyy ...
tier=$1; shift
cd "$(dirname "$0")/.." || exit 2
cargo build --release -q --offline || exit 2
for p in "$@"; do
  s=$(date +%s); out=$(./target/release/verif check $p --tier $tier 2>&1); code=$?; e=$(date +%s)
  echo "$p exit=$code wall=$((e-s))s $(echo "$out" | tail -1)"; echo "$out" | grep -E "VIOLATION|KNOWN-FINDING|MACHINERY|signature" | head -8
done
