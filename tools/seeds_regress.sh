#!/bin/bash
# usage: tools/seeds_regress.sh [seed ...]   -- regression of the machinery against every seeded change, isolated from
# /repo and /verif: a scratch worktree of /repo and a scratch copy of /verif (path dependencies rewritten) under
# /tmp/regress.  For each seed: apply, run the quick check of the property named in meta.json (or in detected_by when
# the seed is reported by a sibling property's check), expect exit 1; revert.  Prints one line per seed.
set -u
R=${REGRESS_DIR:-/tmp/regress}
mkdir -p $R
if [ ! -d $R/repo ]; then git -C /repo worktree add --detach $R/repo HEAD -q; fi
git -C $R/repo checkout -q --detach "$(git -C /repo rev-parse HEAD)"; git -C $R/repo checkout -- .
rsync -a --delete --exclude target --exclude replays --exclude .git /verif/ $R/verif/
sed -i "s#/repo/#$R/repo/#g" $R/verif/Cargo.toml
cd $R/verif && cargo build --release -q --offline 2>&1 | tail -3
seeds=("$@"); if [ ${#seeds[@]} -eq 0 ]; then seeds=($(ls /verif/seeded | grep -E "^C[0-9]+-[0-9]+$")); fi
for s in "${seeds[@]}"; do
  d=/verif/seeded/$s
  prop=$(jq -r .property $d/meta.json)
  det=$(jq -r .detected_by $d/meta.json)
  if echo "$det" | grep -q "^NOT DETECTED"; then echo "$s: (recorded as not detected) skipped"; continue; fi
  (cd $R/repo && git apply $d/patch.diff) || { echo "$s: PATCH DOES NOT APPLY"; continue; }
  out=$(cd $R/verif && VERIF_ROOT=$R/root cargo run --release -q --offline -- check $prop --tier quick 2>&1); code=$?
  nviol=$(echo "$out" | grep -c "^VIOLATION")
  git -C $R/repo checkout -- .
  echo "$s: property=$prop exit=$code violations=$nviol $( [ $code -eq 1 ] && echo DETECTED || echo MISSED )"
done
