#!/usr/bin/env python3
"""Regenerate the seeds table of DESIGN.md (between the SEEDS-TABLE markers) from seeded/*/meta.json."""
import json, glob, re, os
root = os.path.dirname(os.path.dirname(os.path.abspath(__file__)))
rows = []
for d in sorted(glob.glob(os.path.join(root, 'seeded', '*-*')), key=lambda p: (os.path.basename(p).split('-')[0], int(os.path.basename(p).split('-')[1]))):
    m = json.load(open(os.path.join(d, 'meta.json')))
    conf = ''
    try:
        for l in open(os.path.join(d, 'confirm.log')):
            if l.startswith('RESULT'):
                conf = l.strip()
    except FileNotFoundError:
        pass
    ok = 'demo_without=0 demo_with=101' in conf and 'suite_unexpected_failures=0' in conf
    rows.append('| %s | %s | %s | %s |' % (os.path.basename(d), m['needs'].replace('|', '/'), m['detected_by'].replace('|', '/'), 'yes' if ok else ('pending' if not conf else 'see confirm.log')))
table = '| seed | what it needs in order to manifest | detected by | confirmed (demo passes without / fails with the patch, suite 281 with it) |\n|------|------------------------------------|-------------|-----|\n' + '\n'.join(rows)
p = os.path.join(root, 'DESIGN.md')
s = open(p).read()
s = re.sub(r'(<!-- SEEDS-TABLE-BEGIN -->\n).*?(\n<!-- SEEDS-TABLE-END -->)', lambda m: m.group(1) + table + m.group(2), s, flags=re.S)
open(p, 'w').write(s)
print(len(rows), 'seeds')
