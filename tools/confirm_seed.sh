#!/bin/bash
# usage: tools/confirm_seed.sh <seed dir>   (dir has patch.diff, meta.json with demo_src, demo_dest, demo_cmd)
# Confirms in a scratch worktree: suite passes with the patch, demo fails with it, demo passes without it.
set -u
d=$(realpath "$1")
wt=/tmp/wt/confirm
log=$d/confirm.log
if [ ! -d $wt ]; then git -C /repo worktree add --detach $wt HEAD -q; fi
git -C $wt checkout -q --detach "$(git -C /repo rev-parse HEAD)"
git -C $wt checkout -- . ; git -C $wt clean -fdq -e target
cp /repo/Cargo.lock $wt/
src=$(jq -r .demo_src $d/meta.json); dest=$(jq -r .demo_dest $d/meta.json); cmd=$(jq -r .demo_cmd $d/meta.json)
: > $log
mkdir -p "$(dirname $wt/$dest)"
cp "$d/$src" "$wt/$dest"
echo "== demo WITHOUT patch: $cmd" >> $log
(cd $wt && eval "$cmd") >> $log 2>&1; base=$?
echo "exit=$base" >> $log
(cd $wt && git apply $d/patch.diff) || { echo "patch does not apply" >> $log; exit 2; }
echo "== demo WITH patch" >> $log
(cd $wt && eval "$cmd") >> $log 2>&1; mut=$?
echo "exit=$mut" >> $log
rm -f "$wt/$dest"
echo "== suite WITH patch" >> $log
(cd $wt && cargo nextest run --workspace --no-fail-fast --tool-config-file pb:/w/lib/nextest.toml --profile pb --test-threads 8 --offline 2>&1 | grep -E "^\s+(FAIL|Summary)|error\[" | sort -u) >> $log 2>&1
git -C $wt checkout -- . ; git -C $wt clean -fdq -e target
fails=$(grep -E "^\s+FAIL" $log | grep -v -E "https_works|wss_works" | wc -l)
passed=$(grep -oE "[0-9]+ passed" $log | tail -1)
echo "RESULT demo_without=$base demo_with=$mut suite_unexpected_failures=$fails suite=$passed" | tee -a $log
