#!/bin/bash
# usage: import_seed2.sh <out dir of the agent> <Cxx> <k in that dir> <k under seeded/> <demo file> <dest path in repo> <demo cmd> <needs> <detected_by>
src=$1; id=$2; k=$3; nk=$4; demo=$5; dest=$6; cmd=$7; needs=$8; det=$9
d=/verif/seeded/$id-$nk; mkdir -p $d
cp $src/patch$k.diff $d/patch.diff
cp $src/demo$k/$demo $d/
awk "/^## Mutation $k/,/^## Mutation $((k+1))/" $src/notes.md | head -80 > $d/agent_notes.md
jq -n --arg p "$id" --arg s "sub-agent second wave for $id (mutation $k), independent of /verif" --arg n "$needs" --arg ds "$demo" --arg dd "$dest" --arg dc "$cmd" --arg det "$det" \
 '{property:$p, source:$s, needs:$n, demo_src:$ds, demo_dest:$dd, demo_cmd:$dc, detected_by:$det}' > $d/meta.json
echo imported $d
