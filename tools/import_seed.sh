#!/bin/bash
# usage: import_seed.sh <Cxx> <k> <demo file (in /tmp/wt/Cxx-out/demok/)> <dest path in repo> <demo cmd> <needs> <detected_by>
id=$1; k=$2; demo=$3; dest=$4; cmd=$5; needs=$6; det=$7
d=/verif/seeded/$id-$k; mkdir -p $d
cp /tmp/wt/$id-out/patch$k.diff $d/patch.diff
cp /tmp/wt/$id-out/demo$k/$demo $d/
awk "/^## Mutation $k/,/^## Mutation $((k+1))/" /tmp/wt/$id-out/notes.md | head -60 > $d/agent_notes.md
jq -n --arg p "$id" --arg s "sub-agent seed-$id (mutation $k), independent of /verif" --arg n "$needs" --arg ds "$demo" --arg dd "$dest" --arg dc "$cmd" --arg det "$det" \
 '{property:$p, source:$s, needs:$n, demo_src:$ds, demo_dest:$dd, demo_cmd:$dc, detected_by:$det}' > $d/meta.json
echo imported $d
