#!/usr/bin/env python3
"""Regenerates /verif/MANIFEST.json from the table below (single source of truth)."""
import json, subprocess, os

ROOT = os.path.dirname(os.path.abspath(__file__))

def cmd(pid, tier):
    return f"cargo run --release -q --offline -- check {pid} --tier {tier}"

# id -> (category, engine, technique, level text, level note, design ref)
CHECKS = {
 "C17": ("exploration", "ENUM",
   "bounded-exhaustive enumeration of argument products for a fixed family of macro-generated APIs, called through the generated client stubs over a real WsClient against the generated server in memory",
   "Four #[rpc(client, server)] traits (0-4 params, trailing Option x1/x2, Option in the middle, param_kind array/map, argument rename, camelCase, aliases, namespaces with separators _ . /, sync/async/blocking, value and error returns, subscriptions with params / Option tail / map kind / overridden notification name / aliases) compiled into the harness; full product of per-type argument alphabets per method; hand-encoded requests for passed/null/omitted trailing optionals under both encodings; every alias and namespaced name. Oracle: arguments recorded by the server impl == client arguments, client result == server return (value or error object), subscription items equal and in order.",
   "The `programs` quantifier is covered only over this fixed family of declarations (the space of macro inputs is not enumerable by this technique); Option<Option<_>> is excluded. Four transports: WsClient over an in-memory duplex, HttpClient bridged in process to the tower service, and both clients built from URLs against Server::start on loopback.",
   "DESIGN.md §6 C17"),
 "C11": ("model_checking", "SCHED",
   "stateless DFS over all orders of connection opens/closes/aborts (each a scheduling point) on in-memory HTTP and WebSocket connections sharing one ConnectionGuard; interval-rule monitor against a reference occupancy counter",
   "Limits 0..2 (thorough 3), limit+1..limit+3 connections: HTTP requests being processed (parked handler), keep-alive follow-ups, WebSocket sessions ended by close frame / reset mid-call / with open subscription / protocol violation by a hand-written peer that keeps its socket open / upgrade whose response is never read / HTTP request aborted mid-call / server stop. Certain occupancy never exceeds the limit and agrees with ConnectionGuard::available_connections() seen inside running calls; every 429 must be justified by a possibly full server during the attempt; every ended WebSocket connection must have its session finished by quiescence; no handler runs for a refused request.",
   "TowerService assembly over in-memory duplexes (not Server::start's accept loop); preemption only at points. Includes server-side closes for ping inactivity (virtual time), a peer frame above max_request_body_size, and the low-level assembly (ws::connect / http::call_with_service_builder with the permit in a ConnectionState). A change that merely postpones the server's own close of a still-open connection is outside what the monitor (and the property) can observe.",
   "DESIGN.md §6 C11"),
 "C10": ("model_checking", "SCHED",
   "stateless DFS over all release orders of peer actions, parked call handlers, stop()/handle drop and the library's cfg points on real in-memory WebSocket and HTTP/1.1 connections; trace monitor with a transport write log",
   "0-3 connections (WebSocket and keep-alive HTTP) with calls whose handler parks at scheduling points, optional subscription, second stop(), dropping all handles, peer close/drop racing the stop; stop() is a scheduling point of its own and so lands at every position of the history. On every execution: each started call whose peer stayed is answered and its handler ran to completion, nothing is written to a transport and no handler starts after stopped() resolved, stopped() resolves and every serve future ends.",
   "Preemption only at points; 'handed to the transport' = write on the server half of the in-memory duplex. The TowerService assembly over in-memory duplexes is the main vehicle; additional SRV-TCP legs run the same histories against Server::start over loopback sockets (every schedule executed twice). Peer actions racing the stop include unsolicited Pong/Ping frames and a frame above max_request_body_size.",
   "DESIGN.md §6 C10"),
 "C06": ("model_checking", "SCHED",
   "stateless DFS over all release orders of peer actions and puppet-handler steps on real in-memory WebSocket connections; interval-rule (linearizability-style) monitor against a reference set of active subscriptions and a slot counter",
   "Caps 0..2, 1-2 connections; peer scripts {subscribe x(cap+1...), unsubscribe own live / repeated / other connection's / never issued / wrong JSON type, close frame, abrupt drop, subscribe again after endings} x handler scripts {hold, return, reject, drop pending, watch closed(), clone + drop one clone}; whole tree when <= 10k (thorough 400k) executions, else <= 2 (thorough 3) deviations. Every unsubscribe answer must equal the reference 'active' value at some trace position between request and answer; every -32006 refusal must be justified by a full connection during the call; the slot count never exceeds the cap; is_closed() of a held sink equals not-active.",
   "active = accepted (accept() returned to the handler) and not unsubscribed and connection open (on_session_closed unresolved) and handler holds >= 1 sink; preemption only at points. Also: string subscription ids, an id provider that reuses ids (dedicated judge), accept() answers above max_response_body_size, a handler that drops its only sink and keeps running, and the low-level ws::connect assembly.",
   "DESIGN.md §6 C06"),
 "C04": ("model_checking", "SCHED",
   "stateless DFS over all release orders of peer actions, puppet-handler steps, stop() and the library's cfg points on real in-memory WebSocket connections; trace monitor",
   "Scenarios = peer scripts {subscribe, unsubscribe own/foreign, call, close frame, abrupt drop} x handler scripts {accept, reject, drop pending, send, try_send, is_closed, closed().await, clone, return none/error/close message} x stop x point masks (harness only / subscription-sink points / all server points), 1-2 connections, 1-2 subscriptions; whole tree when <= 15k (thorough 400k) executions, else <= 2 (thorough 3) deviations. Monitor: every notification frame carries a subscription id accepted on that connection and the right method name, comes after the accepting response, payloads are a prefix of the handler's successful sends in order, rejected/never-accepted subscriptions produce nothing, at most one closing notification, and after the server-exposed close instant (unsubscribe true seen by the peer / on_session_closed / stopped) every later-started send fails and is_closed() is true.",
   "Preemption only at points; closing instants are those the server exposes. Also: accept() answers above max_response_body_size, stop with a call in flight, stop with a stalled writer (peer not reading), string subscription ids, a peer frame above max_request_body_size, the low-level ws::connect assembly.",
   "DESIGN.md §6 C04"),
 "C18": ("model_checking", "HIST+SCHED",
   "explicit-state BFS over client operation histories (each event run on the real client to quiescence), canonical key = reference lifecycle state + the four table sizes read through the accessor hook; plus SCHED over drop-under-backpressure interleavings and long fixed repetitions",
   "BFS from a 34-event menu (call, batch, two subscriptions, notification handler and every server answer: ok/error/malformed id/duplicate id, abandon-before-ack, notification, lag, unsubscribe, drop, acknowledgement, server close, stale responses re-using finished ids) to depth 12 (thorough: to the fixpoint, 2.8k states); in every state each table is bounded by what is outstanding and with nothing outstanding all four tables are empty; a stale id behaves like a never-used id. SCHED: handler/subscription dropped while the request queue is full, all interleavings. 200x/1000x repetitions of each lifecycle with constant sizes.",
   "Table sizes come from the cfg(jsonrpsee_verif) accessor; the event menu is the alphabet (two subscriptions, one call, one batch, one handler, two array messages); the BFS reaches its fixpoint (depth 16) in both tiers.",
   "DESIGN.md §6 C18"),
 "C05": ("model_checking", "SCHED+ENUM",
   "enumeration of server push sequences x all groupings into arrays x buffer sizes x consumer scripts, each scenario explored over the complete tree of interleavings (stateless DFS under the controlled scheduler); bounded-queue reference model replayed over each execution's trace",
   "Two subscriptions + a pending call on the real async client; every push sequence of length <=3 (thorough 4) over 6 message kinds under every composition into consecutive single/array messages, buffer capacity {1,2} (thorough 3), 7 consumer scripts over {next, unsubscribe, drop}, numeric/string ids; all interleavings of deliveries and consumer actions; the reference model decides the exact items, order, end-of-stream reason (lagged/closed), number of unsubscribe requests naming the subscription on the wire, and the pending call's result.",
   "Subscribe acknowledgements of the prelude are not scheduled; B's consumer is free-running; a single-call response is never packed into an array with notifications (not something a server does); when a close notification follows the lagging item inside the same array, 0 or 1 unsubscribe is accepted. The lag-prone sequences also run on a client built through WsClientBuilder with an RPC middleware (set first / last).",
   "DESIGN.md §6 C05"),
 "C12": ("exploration", "ENUM+SCHED",
   "bounded-exhaustive enumeration of server reply sequences for batches (all permutations/subsets/duplications/foreign ids) through both clients against a positional reference; SCHED over delivery orders of concurrent batches",
   "For n = 1..3 (thorough 4) every reply sequence of length 0..n+1 over {ok/err answer for entry j, foreign id, non-numeric id} x id kind is delivered to the async client (CLI-MEM, real background tasks) and to the HTTP client (scripted tower layer, real HttpClient); result length, positional correctness of every entry, success/failure counts and into_ok() are judged; plus a typed leg (results requested as String; every sequence over ok / err / number-valued success / foreign id that contains a number-valued success: the call fails or reports that entry as an error, never a shorter or shifted list); plus all delivery orders of 2 batches + calls in flight with reversed reply arrays.",
   "A fresh client per case (batch ids start at 0, 1 or 9, so that string ids cross \"9\"/\"10\"); n <= 4 (thorough 5); replies longer than n+1 items not covered.",
   "DESIGN.md §6 C12"),
 "C03": ("model_checking", "SCHED",
   "stateless DFS over all release orders of front-end operations, server answers (every permutation, duplication, omission) and the client's background tasks under a controlled scheduler",
   "For 2-3 concurrent operations out of {request, subscribe, batch, notification} x per-message answer pattern {ok, error, omitted, twice} x extra server messages {stray notifications, never-sent id, packed array} x id kind, every front-end start and every delivery is a scheduling point; the whole schedule tree is explored when it has <= 6k (thorough 300k) executions, else all schedules with <= 2 (thorough 3) deviations. On every execution each completed future must hold the payload of the delivered message whose id equals the id in that call's own wire bytes, must not complete before that delivery, an unanswered call stays pending, and RestartNeeded only appears after a message that matches nothing pending. The client's wire output is checked for JSON-RPC 2.0 well-formedness.",
   "Interleaving granularity = harness points plus the send task's before_handle point (thorough); 4+ concurrent operations not covered. Also: a transport whose receive() is not cancellation safe racing the inactivity timer, batch ids crossing powers of ten after a warm-up, a batch reply packed behind notifications overflowing an unread subscription, a server that reuses subscription ids, server messages framed with every JSON whitespace character, and a real-time leg in which a call is awaited only after its deadline (a response taken in time must not turn into a timeout).",
   "DESIGN.md §6 C03"),
 "C09": ("model_checking", "SCHED+ENUM",
   "stateless DFS over all release orders of the real client's tasks under a controlled scheduler (hook points in harness transports, front-end actors, environment events and the library's send/read/shutdown tasks), with fault enumeration at every step",
   "For every client history (1-3 front-end operations; thorough up to 4) x every fault kind (n-th send fails, receive error, peer close, non-JSON message, unknown-id response, empty array, non-numeric id, empty object) x every injection position x both id kinds, the complete schedule tree is explored when it has <= 3k (thorough 200k) executions, else all schedules with <= 2 (thorough 3) deviations; on every execution: nothing pending at quiescence, every failed op carries the injected cause (never the 'reason could not be found' placeholder), streams ended, is_connected false, on_disconnect resolved with the cause, no panic. Every N-th and every violating schedule is re-executed and must reproduce bit for bit. Plus ~100 hostile server messages (u64-boundary ids, 10^4-element array, depth-200 nesting) x {0,1} pending calls followed by a sentinel call, and one real-time leg for RequestTimeout.",
   "Interleaving granularity = the points (harness events, mock transport operations, cfg points in the three client tasks); preemption between two statements without a point and weak-memory effects are not explored. Virtual time: 'promptly' means 'before quiescence'. Send faults are injected alone and together with a failing transport close().",
   "DESIGN.md §6 C09"),
 "C08": ("exploration", "ENUM",
   "bounded-exhaustive enumeration of (limit, response shape, payload size) and batch layouts; differential against a server with the limit disabled; every wire frame measured",
   "For every limit 40..260 (thorough ..330) and {1024, 65536} and each of 30 response shapes, every payload size whose unlimited reply length is within limit+-3 is requested over HTTP and WS: a fitting reply must be byte-identical to the unlimited server's, a too-big one must be -32008 with the call's id; batches of 1..4 entries with total array length limit-2..limit+2 and the adjustable entry at every position (array byte-identical or -32011); WS subscribe responses with subscription ids of controlled width; WS unsubscribe replies sized through the request id (both handler exits); methods registered sync, async and blocking; full 1-step sweep of MethodResponse::response / BatchResponseBuilder; handler log identical with and without limit.",
   "Payload classes are the 5 listed; in-memory transports, plus Server::start over loopback TCP (HTTP/1.1, WebSocket, HTTP/2) for limits on a stride and reply lengths within limit+-1. Batches are all valid calls or contain one non-request entry (last / middle / first).",
   "DESIGN.md §6 C08"),
 "C07": ("exploration", "ENUM+SCHED",
   "bounded-exhaustive enumeration of a (request limit, response limit) x message size x padding x entry point x body framing grid, handler log as oracle; plus exhaustive schedule enumeration (controlled scheduler, stateless DFS) of oversized frames on a backlogged WebSocket connection",
   "8 limit pairs incl. unequal ones x sizes limit-2..limit+2, 1.5x, 2x, 10x x 3 padding styles x {TowerService HTTP, TowerService WS, the same two with the configuration built limits-first and http_only()/ws_only() last, http::call_with_service_builder, http::call_with_service, ws::connect, Server::start over loopback TCP (HTTP with Content-Length / chunked), Server::start over loopback TCP (WebSocket), Server::start over loopback TCP spoken to over HTTP/2 (DATA frames with / without content-length)} x 6 HTTP framings (Content-Length exact/absent/lying, 1/3/many frames); the message is always a valid call, so 'processed' is observable as 'handler ran once'; over the limit => no handler, -32007 / HTTP error status and the WS connection answers a later call; a second sweep holds the request limit and varies the response limit to show independence. SCHED leg: one WebSocket connection with outgoing buffer capacity 1..3 whose writer task is a scheduling point; oversized frames between ordinary calls in every order of writer progress: each oversized frame is answered -32007, never dispatched, every call answered, connection stays open.",
   "WebSocket messages are single unfragmented frames.",
   "DESIGN.md §6 C07"),
 "C01": ("exploration", "ENUM",
   "bounded-exhaustive enumeration of message byte strings (request products, token strings, byte-level mutations, all short byte strings) through both transports against an independent classifier",
   "Every distinct byte string of the stated generators (REQ product of 21 id forms x 12 methods x 11 params x 6 versions (incl. a JSON-escaped spelling of \"2.0\"), member orders/duplicates/whitespace sub-product, all token strings of length <=5 (thorough 6) over 14 tokens, position-wise mutations of base requests, all 1- and (thorough: all) 2-byte strings, every single-byte replacement) is sent over HTTP (tower service) and over a fresh in-memory WebSocket connection followed by a sentinel call; all frames until close are collected, so 'at most one reply' is a count; replies, ids, results, invoked handlers and HTTP==WS are compared with a reference classifier written on a duplicate-preserving JSON tree.",
   "Non-UTF-8 byte strings and objects with duplicate known members are judged on the weak clauses only (<=1 well-formed reply, keeps serving); messages outside the generators are not covered. The tower-service legs use in-memory duplexes; the REQ product and all token strings of length <=3 additionally travel through Server::start over loopback TCP (bare and behind the built-in RPC logger middleware) and are judged by the same classifier.",
   "DESIGN.md §6 C01"),
 "C02": ("exploration", "ENUM",
   "bounded-exhaustive enumeration of batch arrays over an entry alphabet x batch configurations x transports against a per-entry reference; all frames until close collected",
   "All arrays of length 0..4 (thorough 5) over 15 entry kinds (incl. array-encoded request and notification, a call whose handler reads the request extensions), all arrays of length <=2 x every batch configuration also through Server::start over loopback TCP, all arrays of length <=3 containing a subscribe call, x {Unlimited, Disabled, Limit(0), Limit(1), Limit(2)} x {HTTP, WS}; one array with exactly the expected multiset of replies, nothing outside the array (every WebSocket frame until close is read), fixed errors -32005/-32010/-32600 with no handler run, and each call entry's reply equals its reply when sent alone.",
   "Entry kinds outside the alphabet are not covered; reply order inside the array is not demanded.",
   "DESIGN.md §6 C02"),
 "C19": ("exploration", "ENUM",
   "bounded-exhaustive enumeration of HTTP methods x content-type strings, and of all body chunkings (differential against the single-frame request) through the real tower service",
   "16 method tokens (incl. near-POST tokens post/Post/pOsT/POSTS/POS) x ~36k content-type values (six accepted spellings in all letter-case variants, near misses, missing, duplicated) with status and invocation log checked against the statement; 19 bodies x every split into <=3 (thorough 4) chunks x empty/blank chunk inserted at every boundary x Content-Length present/absent, each compared (status, body, handler log) with the single-frame request of the same bytes.",
   "For the chunking part the TowerService is called directly with an explicit frame-sequence body (hyper's framing is not in the loop); the method x content-type part also runs as raw HTTP/1.1 requests and as HTTP/2 requests against Server::start over loopback TCP, and 2-/3-chunk splits of every body also travel as HTTP/2 DATA frames. The 1- and 2-chunk splits are repeated on a service whose max_request_body_size equals the body length. Bodies outside the 19 are not covered.",
   "DESIGN.md §6 C19"),
 "C13": ("model_checking", "HIST",
   "explicit-state BFS over operation histories of the real RpcModule, canonical state keys, BTreeMap reference model compared on every transition",
   "Every transition re-executes history++[op] on a fresh real RpcModule (plus kept clones) and compares Ok/Err of the op, method_names() and the dispatch of calls to every name with a map reference; states are deduplicated by name->(kind, handler identity up to renaming); BFS to depth 8 (thorough 12) over a 54-op menu (sync/async/blocking/subscription/raw subscription/alias/merge/merge of a module sharing its table with a live clone/remove/clone/continue-from-clone over names a,b,c).",
   "Handler identity is observed through returned tags; unsubscribe handlers are identified by kind only; names beyond {a,b,c} and merges beyond the 8 prepared modules are not covered.",
   "DESIGN.md §6 C13"),
 "C14": ("exploration", "ENUM",
   "bounded-exhaustive enumeration of (allow-list, Host header, header multiplicity, request-target) against an independent authority matcher",
   "The empty allow-list and all 1- and 2-entry allow-lists (both orders; thorough also every 3-entry combination) over 14 patterns x 3.5k Host header strings (scheme x host x userinfo x port forms + control/non-ASCII) x multiplicity {0,1,2} x 4 request-target forms through the real HostFilterLayer over a counting probe service; soundness (admitted => some entry matches) on every case, completeness for single-entry lists and plain authorities. An SRV-TCP leg installs the layer as HTTP middleware of Server::start and sends the empty and the single-entry lists x scheme-less Host values x request-target forms as raw HTTP/1.1, the same judgement applied to (status, handler ran); the same lists x authorities also over HTTP/2 (:authority alone / with an equal Host header / another :authority plus the Host header).",
   "The reference reads the request-target authority both with and without its scheme (statement is silent); completeness is only demanded where the statement gives it.",
   "DESIGN.md §6 C14"),
 "C15": ("exploration", "ENUM",
   "bounded-exhaustive enumeration of inputs (all 2^32 error codes; all short id strings; all response member sequences) against a reference predicate",
   "Exhaustive within stated alphabets: every i32 code, every id string of length <=3 (thorough 4) over a 20-symbol adversarial alphabet, every sequence of <=5 (thorough 6) response members out of 18 (incl. escaped spellings of \"2.0\" and of the member name id); round-trip identity and a reference acceptor are evaluated on every case. Right level because the property is a pure function of finite-alphabet inputs, so enumeration decides it within the bound.",
   "Trusts serde_json as JSON layer on both sides; values outside the alphabets are not covered; `null` params / error data are identified with absent (Option) as the library's data model does.",
   "DESIGN.md §6 C15"),
 "C16": ("exploration", "ENUM",
   "bounded-exhaustive enumeration of params texts x typed read scripts against serde_json's own parse of the element texts",
   "Exhaustive within the alphabet: all arrays of <=3 elements over 17 element texts with whitespace from {none, space, tab-newline} at every token gap (bounded number of non-empty gaps for 3 elements), plus objects/scalars/absent, crossed with all read scripts of length <=3 (thorough 4) over five typed reads; every read is compared with the reference and every failure must be -32602; panics are caught.",
   "Trusts serde_json for the reference parse of individual element texts; element texts outside the 17-member alphabet are not covered.",
   "DESIGN.md §6 C16"),
 "C20": ("exploration", "ENUM+HIST",
   "bounded-exhaustive enumeration of insert histories (incl. Serialize impls failing before / midway) against serde_json::to_value and a pair-preserving parse",
   "Exhaustive within the alphabet: all insert sequences of length <=5 (thorough 6) over 17 value kinds into both builders (3 key schemes incl. duplicate/escaped keys), clones taken mid-history, rpc_params! 0..4 args, tuples of all arities 1..16, slices/arrays/Vec of length 0..3 and sub-slices, Map, batch builder 0..3 entries; oracle = valid JSON that parses back to exactly the successfully inserted values; panics are caught.",
   "Values outside the 17 kinds are not covered; serde_json::to_value is the reference serialisation.",
   "DESIGN.md §6 C20"),
}

NOT_BUILT = {}

def main():
    props = [json.loads(l) for l in open(os.path.join(ROOT, "properties.jsonl"))]
    hooks_commits = subprocess.run(["git", "-C", "/repo", "log", "--format=%h %s"], capture_output=True, text=True).stdout.splitlines()
    hook_shas = [l.split()[0] for l in hooks_commits if "verif hooks:" in l]
    checks = []
    na = []
    for p in props:
        pid = p["id"]
        if pid in CHECKS:
            cat, engine, tech, text, note, ref = CHECKS[pid]
            checks.append({
                "property_id": pid,
                "quick_cmd": cmd(pid, "quick"),
                "thorough_cmd": cmd(pid, "thorough"),
                "evidence_file": f"/verif/evidence/{pid}.json",
                "replay_cmd_template": "cargo run --release -q --offline -- replay {path}",
                "engine": engine,
                "level_claimed": {"category": cat, "text": text, "design_ref": ref},
                "level_note": note,
                "technique": tech,
            })
        else:
            na.append({"property_id": pid, "reason": NOT_BUILT.get(pid, "check not built yet in this round (planned, see DESIGN.md §6); not claimed until it exists")})
    m = {
        "version": 1,
        "setup_cmd": "cargo build --release --offline",
        "hooks": {
            "guard": "--cfg jsonrpsee_verif",
            "enable": "RUSTFLAGS in /verif/.cargo/config.toml: --cfg tokio_unstable --cfg jsonrpsee_verif; /repo crates are path dependencies of the /verif crate, so every check rebuilds them from the working tree with the hooks on",
            "baseline_off_cmd": "cd /repo && cargo nextest run --workspace --no-fail-fast --tool-config-file pb:/w/lib/nextest.toml --profile pb --test-threads 8 --offline",
            "source_commits": hook_shas,
            "add_only": True,
        },
        "engines": [
            {"name": "SCHED", "path": "/verif/src/sched.rs", "serves_properties": [c["property_id"] for c in checks if "SCHED" in c["engine"]],
             "kind_free_text": "controlled scheduler over real tokio tasks (current_thread, paused clock, hook points); stateless DFS over choice sequences with deviation bound; deterministic replay check"},
            {"name": "HIST", "path": "/verif/src/hist.rs", "serves_properties": [c["property_id"] for c in checks if "HIST" in c["engine"]],
             "kind_free_text": "explicit-state BFS over operation histories of real objects with canonical state keys and a reference model"},
            {"name": "ENUM", "path": "/verif/src/par.rs", "serves_properties": [c["property_id"] for c in checks if "ENUM" in c["engine"]],
             "kind_free_text": "bounded-exhaustive enumeration of inputs/configurations from finite alphabets against reference models / differential oracles"},
        ],
        "checks": checks,
        "not_applicable": na,
        "notes": "All checks are one binary (`verif`); see DESIGN.md. Known findings: /verif/known_findings.json.",
    }
    json.dump(m, open(os.path.join(ROOT, "MANIFEST.json"), "w"), indent=1)
    print(f"{len(checks)} checks, {len(na)} not claimed")

if __name__ == "__main__":
    main()
