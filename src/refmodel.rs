//! Reference-model helpers written independently of jsonrpsee's types:
//! a pair-preserving JSON tree (objects keep duplicate members and their order).

use serde::de::{Deserialize, Deserializer, MapAccess, SeqAccess, Visitor};
use serde_json::Value;
use std::fmt;

#[derive(Clone, Debug, PartialEq)]
pub enum PJ {
	Null,
	Bool(bool),
	Num(serde_json::Number),
	Str(String),
	Arr(Vec<PJ>),
	Obj(Vec<(String, PJ)>),
}

impl<'de> Deserialize<'de> for PJ {
	fn deserialize<D: Deserializer<'de>>(d: D) -> Result<PJ, D::Error> {
		struct V;
		impl<'de> Visitor<'de> for V {
			type Value = PJ;
			fn expecting(&self, f: &mut fmt::Formatter) -> fmt::Result {
				f.write_str("any JSON value")
			}
			fn visit_bool<E>(self, b: bool) -> Result<PJ, E> {
				Ok(PJ::Bool(b))
			}
			fn visit_i64<E>(self, n: i64) -> Result<PJ, E> {
				Ok(PJ::Num(n.into()))
			}
			fn visit_u64<E>(self, n: u64) -> Result<PJ, E> {
				Ok(PJ::Num(n.into()))
			}
			fn visit_f64<E>(self, n: f64) -> Result<PJ, E> {
				Ok(serde_json::Number::from_f64(n).map(PJ::Num).unwrap_or(PJ::Null))
			}
			fn visit_str<E>(self, s: &str) -> Result<PJ, E> {
				Ok(PJ::Str(s.to_string()))
			}
			fn visit_string<E>(self, s: String) -> Result<PJ, E> {
				Ok(PJ::Str(s))
			}
			fn visit_unit<E>(self) -> Result<PJ, E> {
				Ok(PJ::Null)
			}
			fn visit_none<E>(self) -> Result<PJ, E> {
				Ok(PJ::Null)
			}
			fn visit_some<D: Deserializer<'de>>(self, d: D) -> Result<PJ, D::Error> {
				PJ::deserialize(d)
			}
			fn visit_seq<A: SeqAccess<'de>>(self, mut a: A) -> Result<PJ, A::Error> {
				let mut v = Vec::new();
				while let Some(x) = a.next_element::<PJ>()? {
					v.push(x);
				}
				Ok(PJ::Arr(v))
			}
			fn visit_map<A: MapAccess<'de>>(self, mut a: A) -> Result<PJ, A::Error> {
				let mut v = Vec::new();
				while let Some((k, x)) = a.next_entry::<String, PJ>()? {
					v.push((k, x));
				}
				Ok(PJ::Obj(v))
			}
		}
		d.deserialize_any(V)
	}
}

impl PJ {
	pub fn parse(text: &[u8]) -> Option<PJ> {
		serde_json::from_slice::<PJ>(text).ok()
	}

	/// Members named `k` of an object, in order.
	pub fn members<'a>(&'a self, k: &str) -> Vec<&'a PJ> {
		match self {
			PJ::Obj(v) => v.iter().filter(|(n, _)| n == k).map(|(_, x)| x).collect(),
			_ => vec![],
		}
	}

	pub fn to_value(&self) -> Value {
		match self {
			PJ::Null => Value::Null,
			PJ::Bool(b) => Value::Bool(*b),
			PJ::Num(n) => Value::Number(n.clone()),
			PJ::Str(s) => Value::String(s.clone()),
			PJ::Arr(a) => Value::Array(a.iter().map(|x| x.to_value()).collect()),
			PJ::Obj(o) => Value::Object(o.iter().map(|(k, v)| (k.clone(), v.to_value())).collect()),
		}
	}

	pub fn has_duplicate_member(&self) -> bool {
		match self {
			PJ::Obj(v) => {
				for i in 0..v.len() {
					for j in 0..i {
						if v[i].0 == v[j].0 {
							return true;
						}
					}
				}
				false
			}
			_ => false,
		}
	}

	/// id-domain test of the library: null, unsigned 64-bit integer, or string
	pub fn in_id_domain(&self) -> bool {
		match self {
			PJ::Null | PJ::Str(_) => true,
			PJ::Num(n) => n.is_u64(),
			_ => false,
		}
	}
}

/// Is `v` a well-formed JSON-RPC 2.0 response object (jsonrpc "2.0", id in domain, exactly one of result/error,
/// error = {code:int, message:string, data?})?
pub fn wellformed_response(v: &PJ) -> Result<(), String> {
	let PJ::Obj(_) = v else { return Err("not an object".into()) };
	if v.has_duplicate_member() {
		return Err("duplicate member".into());
	}
	match v.members("jsonrpc").as_slice() {
		[PJ::Str(s)] if s == "2.0" => {}
		_ => return Err("jsonrpc member is not \"2.0\"".into()),
	}
	match v.members("id").as_slice() {
		[id] if id.in_id_domain() => {}
		_ => return Err("id missing or outside domain".into()),
	}
	let r = v.members("result");
	let e = v.members("error");
	match (r.len(), e.len()) {
		(1, 0) => Ok(()),
		(0, 1) => {
			let eo = e[0];
			let PJ::Obj(m) = eo else { return Err("error is not an object".into()) };
			match eo.members("code").as_slice() {
				[PJ::Num(n)] if n.is_i64() || n.is_u64() => {}
				_ => return Err("error.code is not an integer".into()),
			}
			match eo.members("message").as_slice() {
				[PJ::Str(_)] => {}
				_ => return Err("error.message is not a string".into()),
			}
			for (k, _) in m {
				if k != "code" && k != "message" && k != "data" {
					return Err(format!("error has unknown member {k}"));
				}
			}
			Ok(())
		}
		_ => Err("not exactly one of result/error".into()),
	}
}
