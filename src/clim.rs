//! CLI-MEM: the async client built with `build_with_tokio` over harness transports (DESIGN §4).
//! Every front-end operation and every environment event is an actor that parks at a scheduling point,
//! so SCHED explores all their orders; the library's own cfg points refine the interleaving further.

use crate::sched::{self, Status, Verdict};
use jsonrpsee_core::client::async_client::{Client, ClientBuilder};
use jsonrpsee_core::client::{
	BatchResponse, ClientT, Error, IdKind, ReceivedMessage, Subscription, SubscriptionClientT, TransportReceiverT, TransportSenderT,
};
use jsonrpsee_core::params::BatchRequestBuilder;
use jsonrpsee_core::rpc_params;
use serde_json::{Value, json};
use std::collections::VecDeque;
use std::sync::{Arc, Mutex};
use std::time::Duration;
use tokio::sync::Notify;

#[derive(Debug)]
pub struct MockErr(pub String);
impl std::fmt::Display for MockErr {
	fn fmt(&self, f: &mut std::fmt::Formatter<'_>) -> std::fmt::Result {
		write!(f, "{}", self.0)
	}
}
impl std::error::Error for MockErr {}

pub struct Shared {
	pub sent: Mutex<Vec<String>>,
	pub send_calls: Mutex<usize>,
	pub fail_send_at: Option<usize>,
	pub wire_notify: Notify,
	pub rxq: Mutex<VecDeque<Result<ReceivedMessage, MockErr>>>,
	pub rx_notify: Notify,
	pub tx_closed: Mutex<bool>,
	/// points inside the transport operations
	pub tx_points: bool,
	/// `receive()` is not cancellation safe, like the WebSocket transport's: it takes the message off the connection,
	/// then has one more await (point `rx:mid`) before it returns it; a `receive()` future dropped in between loses it
	pub rx_split: bool,
	/// `send_ping` fails (the send half is broken at the moment a ping is written)
	pub fail_ping: bool,
	/// `close()` fails too (a broken send half usually cannot say goodbye either)
	pub fail_close: bool,
}

pub struct MockTx(pub Arc<Shared>);
pub struct MockRx(pub Arc<Shared>);

impl TransportSenderT for MockTx {
	type Error = MockErr;
	async fn send(&mut self, msg: String) -> Result<(), MockErr> {
		if self.0.tx_points {
			sched::point("tx:send").await;
		}
		let n = {
			let mut c = self.0.send_calls.lock().unwrap();
			*c += 1;
			*c - 1
		};
		if self.0.fail_send_at == Some(n) {
			sched::log(format!("tx:send#{n}:FAULT"));
			return Err(MockErr("injected-send-fault".into()));
		}
		sched::log(format!("tx:send#{n}:{msg}"));
		self.0.sent.lock().unwrap().push(msg);
		self.0.wire_notify.notify_waiters();
		if self.0.tx_points {
			// the bytes have left, the send future has not returned yet (e.g. waiting for a flush)
			sched::point("tx:send:returning").await;
		}
		Ok(())
	}
	async fn send_ping(&mut self) -> Result<(), MockErr> {
		if self.0.fail_ping {
			sched::log("tx:ping:FAULT");
			return Err(MockErr("injected-ping-fault".into()));
		}
		sched::log("tx:ping");
		Ok(())
	}
	async fn close(&mut self) -> Result<(), MockErr> {
		if self.0.tx_points {
			sched::point("tx:close").await;
		}
		*self.0.tx_closed.lock().unwrap() = true;
		if self.0.fail_close {
			sched::log("tx:close:FAULT");
			return Err(MockErr("injected-close-fault".into()));
		}
		sched::log("tx:close");
		Ok(())
	}
}

impl TransportReceiverT for MockRx {
	type Error = MockErr;
	async fn receive(&mut self) -> Result<ReceivedMessage, MockErr> {
		loop {
			let n = self.0.rx_notify.notified();
			let item = self.0.rxq.lock().unwrap().pop_front();
			if let Some(item) = item {
				if self.0.rx_split {
					sched::point("rx:mid").await;
				}
				return item;
			}
			n.await;
		}
	}
}

impl Shared {
	pub fn push_rx(&self, item: Result<ReceivedMessage, MockErr>) {
		self.rxq.lock().unwrap().push_back(item);
		self.rx_notify.notify_one();
	}
	pub async fn wait_sent(&self, k: usize) {
		loop {
			let n = self.wire_notify.notified();
			if self.sent.lock().unwrap().len() > k {
				return;
			}
			n.await;
		}
	}
	pub fn sent_msg(&self, k: usize) -> Option<String> {
		self.sent.lock().unwrap().get(k).cloned()
	}
}

#[derive(Clone, Debug, PartialEq)]
pub enum FeOp {
	Call,
	Batch(usize),
	/// the same batch, but the caller asks for `String` results (an answer of another JSON type cannot be decoded)
	BatchStr(usize),
	Subscribe,
	/// subscribe and drop the stream as soon as it exists (the client then sends an unsubscribe)
	SubscribeDrop,
	Notif,
	/// a call that is only started once `after` environment events have fired
	LateCall,
	/// a batch that is only started once `after` environment events have fired
	LateBatch(usize),
	/// a call whose future the application may drop (cancel) at any moment before it completes
	AbandonCall,
	/// `subscribe_to_method`: register for plain notifications of a method (nothing goes on the wire)
	RegisterNotif,
	/// subscribe and keep the stream without ever reading it (its buffer fills up, then it lags)
	SubscribeHold,
	/// a subscribe that is only started once `after` environment events have fired
	LateSubscribe,
	/// this many notifications sent one after the other by one caller
	NotifBurst(usize),
	/// a call whose future is polled once (the request goes out), then left alone until the scheduler says so, then -
	/// after waiting in real time until the request timeout has certainly expired - awaited: the application's task was
	/// busy while the answer came in
	CallPolledLate,
}

#[derive(Clone, Debug, PartialEq)]
pub enum AnswerKind {
	Ok,
	Err,
	/// ok answers; a batch reply array is sent in reverse order
	OkRev,
	/// ok answers; every subscribe call is answered with the same subscription id "SX" (a server that reuses ids)
	OkConstSub,
}

#[derive(Clone, Debug, PartialEq)]
pub enum EnvEvent {
	/// answer the k-th message the client put on the wire (once it is there)
	Answer { msg: usize, kind: AnswerKind },
	/// deliver this text once the wire holds at least `after` messages
	Raw { after: usize, text: String },
	/// the receiver fails once the wire holds at least `after` messages
	RecvError { after: usize, what: String },
	/// ONE array message: `notifs` notifications for the subscription requested by wire message `sub_msg`, followed by
	/// the answers to every entry of the batch in wire message `batch_msg`
	PackedNotifsAndBatch { sub_msg: usize, batch_msg: usize, notifs: usize },
}

#[derive(Clone, Debug, PartialEq)]
pub enum OpStatus {
	NotStarted,
	Pending,
	Ok(String),
	Err(String),
}

pub struct OpLog {
	pub status: Vec<OpStatus>,
	/// (op index, trace position) of completion
	pub done_pos: Vec<Option<usize>>,
	/// for Subscribe ops: items the consumer saw and whether the stream ended
	pub sub_items: Vec<Vec<String>>,
	pub sub_ended: Vec<bool>,
	pub on_disconnect: Option<String>,
	pub env_fired: usize,
	/// (event index, trace position, delivered text)
	pub deliveries: Vec<(usize, usize, String)>,
	/// for CallPolledLate ops: (op index, trace position when the real-time wait began, real milliseconds since the call
	/// was created at that moment)
	pub late_polls: Vec<(usize, usize, u128)>,
}

pub struct CliState {
	pub shared: Arc<Shared>,
	pub log: Arc<Mutex<OpLog>>,
	pub client: Arc<Client>,
}

/// `[entry,...]#s<successes>f<failures>o<into_ok agrees>`; an entry is the JSON value or `E<code>`.
pub fn batch_summary<R: serde::Serialize + Clone + std::fmt::Debug>(b: BatchResponse<R>) -> String {
	let js = |v: &R| serde_json::to_string(v).unwrap_or_else(|_| "?".into());
	let items: Vec<String> = b
		.iter()
		.map(|e| match e {
			Ok(v) => js(v),
			Err(e) => format!("E{}", e.code()),
		})
		.collect();
	let (s, f) = (b.num_successful_calls(), b.num_failed_calls());
	let n_ok = b.iter().filter(|e| e.is_ok()).count();
	let into_ok_is_ok = b.clone().into_ok().is_ok();
	// into_ok() and ok() must say Ok exactly when no entry is an error, and then hand out every entry, in order;
	// otherwise they hand out exactly the error entries
	let by_ref_agrees = match b.ok() {
		Ok(it) => {
			let got: Vec<String> = it.map(|v| js(v)).collect();
			n_ok == b.len() && got == b.iter().filter_map(|e| e.as_ref().ok().map(|v| js(v))).collect::<Vec<_>>()
		}
		Err(it) => n_ok != b.len() && it.count() == b.len() - n_ok,
	};
	let by_value_agrees = match b.clone().into_ok() {
		Ok(it) => it.map(|v| js(&v)).collect::<Vec<_>>() == b.iter().filter_map(|e| e.as_ref().ok().map(|v| js(v))).collect::<Vec<_>>() && n_ok == b.len(),
		Err(it) => n_ok != b.len() && it.count() == b.len() - n_ok,
	};
	let agrees = into_ok_is_ok == (n_ok == b.len()) && by_ref_agrees && by_value_agrees;
	format!("[{}]#s{s}f{f}o{}", items.join(","), agrees as u8)
}

pub fn err_str(e: &Error) -> String {
	format!("{e:?} :: {e}")
}

/// the reply the environment gives to a wire message
pub fn answer_for(msg: &str, k: usize, kind: &AnswerKind) -> String {
	let v: Value = serde_json::from_str(msg).unwrap_or(Value::Null);
	let one = |req: &Value, tag: String| -> Value {
		let id = req.get("id").cloned().unwrap_or(Value::Null);
		let is_sub = req.get("method").and_then(|m| m.as_str()) == Some("sub");
		match kind {
			AnswerKind::Ok | AnswerKind::OkRev | AnswerKind::OkConstSub => {
				if is_sub && *kind == AnswerKind::OkConstSub {
					json!({"jsonrpc":"2.0","id": id, "result": "SX"})
				} else if is_sub {
					json!({"jsonrpc":"2.0","id": id, "result": format!("S{k}")})
				} else {
					json!({"jsonrpc":"2.0","id": id, "result": tag})
				}
			}
			AnswerKind::Err => json!({"jsonrpc":"2.0","id": id, "error": {"code": 1000 + k as i64, "message": tag}}),
		}
	};
	match &v {
		Value::Array(a) => {
			let mut items: Vec<Value> = a.iter().enumerate().map(|(j, r)| one(r, format!("r{k}.{j}"))).collect();
			if *kind == AnswerKind::OkRev {
				items.reverse();
			}
			Value::Array(items).to_string()
		}
		obj => one(obj, format!("r{k}")).to_string(),
	}
}

pub struct CliScenarioCfg {
	pub id_kind: IdKind,
	pub ops: Vec<FeOp>,
	pub env: Vec<EnvEvent>,
	pub fail_send_at: Option<usize>,
	pub tx_points: bool,
	pub buffer_cap: usize,
	pub late_after: usize,
	/// see `Shared::rx_split`
	pub rx_split: bool,
	/// enable the client's ping/inactivity machinery with this interval (virtual milliseconds)
	pub ping_ms: Option<u64>,
	/// the send task's ping ticker (virtual milliseconds); the first tick is immediate
	pub send_ping_ms: Option<u64>,
	/// see `Shared::fail_ping`
	pub fail_ping: bool,
	/// this many sequential calls (answered at once, no scheduling points) are made before the front-end actors start,
	/// so that the ids used by the scenario proper start at `warmup`
	pub warmup: usize,
	/// see `Shared::fail_close`
	pub fail_close: bool,
	/// build the client through `WsClientBuilder` (the jsonrpsee-ws-client crate's own builder) with an RPC middleware
	/// installed: `Some(true)` = every setting first and `set_rpc_middleware` as the last call, `Some(false)` = the
	/// middleware first
	pub ws_builder: Option<bool>,
	/// JSON whitespace put before and after every text message the environment delivers (a server or proxy that frames
	/// its messages with CR LF, pretty-prints, ...)
	pub frame_ws: &'static str,
	/// request timeout in REAL milliseconds (the client's timer is futures_timer's, which runs on the wall clock);
	/// None = one hour
	pub request_timeout_ms: Option<u64>,
}

/// The same client configuration expressed through `jsonrpsee_ws_client::WsClientBuilder`, with the default logger
/// middleware installed explicitly (so the client type stays the default one).
pub fn ws_builder_plain(buffer_cap: usize, id_kind: IdKind, mw_last: bool, shared: Arc<Shared>) -> Client {
	let cfg = CliScenarioCfg { id_kind, ops: vec![], env: vec![], fail_send_at: None, tx_points: false, buffer_cap, late_after: 0, rx_split: false, ping_ms: None, send_ping_ms: None, fail_ping: false, warmup: 0, fail_close: false, ws_builder: Some(mw_last), frame_ws: "", request_timeout_ms: None };
	ws_builder_client(&cfg, mw_last, shared)
}

fn ws_builder_client(cfg: &CliScenarioCfg, mw_last: bool, shared: Arc<Shared>) -> Client {
	use jsonrpsee_ws_client::{RpcServiceBuilder, WsClientBuilder};
	let mw = || RpcServiceBuilder::default().rpc_logger(1024);
	let b = WsClientBuilder::new();
	let settings = |b: WsClientBuilder<_>| {
		let mut b = b.request_timeout(Duration::from_secs(3600)).max_buffer_capacity_per_subscription(cfg.buffer_cap).id_format(cfg.id_kind);
		if let Some(ms) = cfg.send_ping_ms {
			b = b.enable_ws_ping(jsonrpsee_ws_client::PingConfig::new().ping_interval(Duration::from_millis(ms)).inactive_limit(Duration::from_secs(36000)).max_failures(usize::MAX));
		} else if let Some(ms) = cfg.ping_ms {
			b = b.enable_ws_ping(jsonrpsee_ws_client::PingConfig::new().ping_interval(Duration::from_secs(36000)).inactive_limit(Duration::from_millis(ms)).max_failures(usize::MAX));
		} else {
			b = b.disable_ws_ping();
		}
		b
	};
	if mw_last {
		settings(b).set_rpc_middleware(mw()).build_with_transport(MockTx(shared.clone()), MockRx(shared))
	} else {
		settings(b.set_rpc_middleware(mw())).build_with_transport(MockTx(shared.clone()), MockRx(shared))
	}
}

/// Build the client and spawn all actors. Must be called inside the runtime.
pub fn setup(cfg: &CliScenarioCfg) -> CliState {
	let shared = Arc::new(Shared {
		rx_split: cfg.rx_split,
		fail_ping: cfg.fail_ping,
		fail_close: cfg.fail_close,
		sent: Mutex::new(Vec::new()),
		send_calls: Mutex::new(0),
		fail_send_at: cfg.fail_send_at,
		wire_notify: Notify::new(),
		rxq: Mutex::new(VecDeque::new()),
		rx_notify: Notify::new(),
		tx_closed: Mutex::new(false),
		tx_points: cfg.tx_points,
	});
	let mut builder = ClientBuilder::default()
		.request_timeout(cfg.request_timeout_ms.map_or(Duration::from_secs(3600), Duration::from_millis))
		.max_buffer_capacity_per_subscription(cfg.buffer_cap)
		.id_format(cfg.id_kind);
	if let Some(ms) = cfg.send_ping_ms {
		builder = builder.enable_ws_ping(
			jsonrpsee_core::client::async_client::PingConfig::new()
				.ping_interval(Duration::from_millis(ms))
				.inactive_limit(Duration::from_secs(36000))
				.max_failures(usize::MAX),
		);
	} else if let Some(ms) = cfg.ping_ms {
		// the read task's inactivity timer fires every `ms` (virtual) but never declares the connection inactive:
		// it only makes that select branch win while other work is in flight
		builder = builder.enable_ws_ping(
			jsonrpsee_core::client::async_client::PingConfig::new()
				.ping_interval(Duration::from_secs(36000))
				.inactive_limit(Duration::from_millis(ms))
				.max_failures(usize::MAX),
		);
	}
	let client: Client = match cfg.ws_builder {
		None => builder.build_with_tokio(MockTx(shared.clone()), MockRx(shared.clone())),
		Some(mw_last) => ws_builder_client(cfg, mw_last, shared.clone()),
	};
	let client = Arc::new(client);
	let n = cfg.ops.len();
	let log = Arc::new(Mutex::new(OpLog {
		status: vec![OpStatus::NotStarted; n],
		done_pos: vec![None; n],
		sub_items: vec![vec![]; n],
		sub_ended: vec![false; n],
		on_disconnect: None,
		env_fired: 0,
		deliveries: vec![],
		late_polls: vec![],
	}));
	let env_notify = Arc::new(Notify::new());
	// warm-up: advance the id counter
	let warm = Arc::new((Mutex::new(cfg.warmup == 0), Notify::new()));
	if cfg.warmup > 0 {
		let n = cfg.warmup;
		let (client, shared2, warm2) = (client.clone(), shared.clone(), warm.clone());
		tokio::spawn(async move {
			for j in 0..n {
				shared2.wait_sent(j).await;
				let m = shared2.sent_msg(j).unwrap();
				shared2.push_rx(Ok(ReceivedMessage::Text(answer_for(&m, j, &AnswerKind::Ok))));
			}
		});
		tokio::spawn(async move {
			for j in 0..n {
				let _ = client.request::<Value, _>("warm", rpc_params![j as u64]).await;
			}
			*warm2.0.lock().unwrap() = true;
			warm2.1.notify_waiters();
		});
	}
	// front-end actors
	for (i, op) in cfg.ops.iter().cloned().enumerate() {
		let client = client.clone();
		let log = log.clone();
		let env_notify = env_notify.clone();
		let late_after = cfg.late_after;
		let late_timeout_ms = cfg.request_timeout_ms.unwrap_or(0);
		let warm = warm.clone();
		tokio::spawn(async move {
			loop {
				let nfy = warm.1.notified();
				if *warm.0.lock().unwrap() {
					break;
				}
				nfy.await;
			}
			if matches!(op, FeOp::LateCall | FeOp::LateBatch(_) | FeOp::LateSubscribe) {
				loop {
					let nfy = env_notify.notified();
					if log.lock().unwrap().env_fired >= late_after {
						break;
					}
					nfy.await;
				}
			}
			sched::point(format!("fe:start:{i}")).await;
			log.lock().unwrap().status[i] = OpStatus::Pending;
			sched::log(format!("fe:{i}:start:{op:?}"));
			let res: Result<String, String> = match op {
				FeOp::AbandonCall => {
					let fut = client.request::<Value, _>("m", rpc_params![i as u64]);
					tokio::select! {
						biased;
						r = fut => r.map(|v| v.to_string()).map_err(|e| err_str(&e)),
						_ = sched::point(format!("fe:abandon:{i}")) => Ok("abandoned".to_string()),
					}
				}
				FeOp::Call | FeOp::LateCall => client.request::<Value, _>("m", rpc_params![i as u64]).await.map(|v| v.to_string()).map_err(|e| err_str(&e)),
				FeOp::CallPolledLate => {
					let t0 = std::time::Instant::now();
					let fut = client.request::<Value, _>("m", rpc_params![i as u64]);
					tokio::pin!(fut);
					match futures_util::poll!(fut.as_mut()) {
						std::task::Poll::Ready(r) => r.map(|v| v.to_string()).map_err(|e| err_str(&e)),
						std::task::Poll::Pending => {
							sched::point(format!("fe:late-poll:{i}")).await;
							let waited = t0.elapsed().as_millis();
							log.lock().unwrap().late_polls.push((i, sched::pos(), waited));
							sched::log(format!("fe:{i}:late-poll:waiting-past-the-deadline"));
							// real time: the timeout timer is not tokio's
							let deadline = Duration::from_millis(late_timeout_ms + late_timeout_ms / 4);
							if let Some(rest) = deadline.checked_sub(t0.elapsed()) {
								std::thread::sleep(rest);
							}
							fut.await.map(|v| v.to_string()).map_err(|e| err_str(&e))
						}
					}
				}
				FeOp::Notif => client.notification("note", rpc_params![i as u64]).await.map(|_| "sent".to_string()).map_err(|e| err_str(&e)),
				FeOp::NotifBurst(n) => {
					let mut r = Ok("sent".to_string());
					for j in 0..n {
						if let Err(e) = client.notification("burst", rpc_params![j as u64]).await {
							r = Err(err_str(&e));
							break;
						}
					}
					r
				}
				FeOp::Batch(k) | FeOp::LateBatch(k) => {
					let mut b = BatchRequestBuilder::new();
					let name = format!("bm{i}");
					for j in 0..k {
						b.insert(&name, rpc_params![j as u64]).unwrap();
					}
					let r: Result<BatchResponse<Value>, Error> = client.batch_request(b).await;
					r.map(batch_summary).map_err(|e| err_str(&e))
				}
				FeOp::BatchStr(k) => {
					let mut b = BatchRequestBuilder::new();
					let name = format!("bm{i}");
					for j in 0..k {
						b.insert(&name, rpc_params![j as u64]).unwrap();
					}
					let r: Result<BatchResponse<String>, Error> = client.batch_request(b).await;
					r.map(batch_summary).map_err(|e| err_str(&e))
				}
				FeOp::Subscribe | FeOp::SubscribeDrop | FeOp::RegisterNotif | FeOp::SubscribeHold | FeOp::LateSubscribe => {
					let r: Result<Subscription<Value>, Error> = if op == FeOp::RegisterNotif {
						client.subscribe_to_method(&format!("evt{i}")).await
					} else {
						client.subscribe("sub", rpc_params![i as u64], "unsub").await
					};
					match r {
						Ok(sub) if op == FeOp::SubscribeDrop => {
							let kind = format!("{:?}", sub.kind());
							sched::log(format!("fe:{i}:subscribed-and-dropping:{kind}"));
							drop(sub);
							Ok(kind)
						}
						Ok(mut sub) => {
							let kind = format!("{:?}", sub.kind());
							log.lock().unwrap().status[i] = OpStatus::Ok(kind.clone());
							log.lock().unwrap().done_pos[i] = Some(sched::pos());
							sched::log(format!("fe:{i}:subscribed:{kind}"));
							if op == FeOp::SubscribeHold {
								// the application holds the stream but does not read it
								std::future::pending::<()>().await;
							}
							while let Some(item) = sub.next().await {
								let s = item.map(|v| v.to_string()).unwrap_or_else(|e| format!("decode-error:{e}"));
								sched::log(format!("fe:{i}:item:{s}"));
								log.lock().unwrap().sub_items[i].push(s);
							}
							log.lock().unwrap().sub_ended[i] = true;
							sched::log(format!("fe:{i}:stream-ended"));
							return;
						}
						Err(e) => Err(err_str(&e)),
					}
				}
			};
			sched::log(format!("fe:{i}:done:{res:?}"));
			let mut l = log.lock().unwrap();
			l.done_pos[i] = Some(sched::pos());
			l.status[i] = match res {
				Ok(s) => OpStatus::Ok(s),
				Err(e) => OpStatus::Err(e),
			};
		});
	}
	// on_disconnect watcher
	{
		let client = client.clone();
		let log = log.clone();
		tokio::spawn(async move {
			let e = client.on_disconnect().await;
			sched::log(format!("on_disconnect:{e}"));
			log.lock().unwrap().on_disconnect = Some(err_str(&e));
		});
	}
	// environment actors
	for (k, ev) in cfg.env.iter().cloned().enumerate() {
		let shared = shared.clone();
		let log = log.clone();
		let env_notify = env_notify.clone();
		let frame_ws = cfg.frame_ws;
		tokio::spawn(async move {
			let item: Result<ReceivedMessage, MockErr> = match &ev {
				EnvEvent::Answer { msg, kind } => {
					shared.wait_sent(*msg).await;
					let m = shared.sent_msg(*msg).unwrap();
					// notifications are not answered by a server
					let is_notif = serde_json::from_str::<Value>(&m).map_or(false, |v| v.is_object() && v.get("id").is_none());
					if is_notif {
						log.lock().unwrap().env_fired += 1;
						env_notify.notify_waiters();
						return;
					}
					sched::point(format!("env:answer:{k}")).await;
					Ok(ReceivedMessage::Text(answer_for(&m, *msg, kind)))
				}
				EnvEvent::Raw { after, text } => {
					if *after > 0 {
						shared.wait_sent(*after - 1).await;
					}
					sched::point(format!("env:raw:{k}")).await;
					Ok(ReceivedMessage::Text(text.clone()))
				}
				EnvEvent::PackedNotifsAndBatch { sub_msg, batch_msg, notifs } => {
					shared.wait_sent(*sub_msg.max(batch_msg)).await;
					let b = shared.sent_msg(*batch_msg).unwrap();
					sched::point(format!("env:packed:{k}")).await;
					let mut items: Vec<Value> = (0..*notifs).map(|j| json!({"jsonrpc":"2.0","method":"n","params":{"subscription": format!("S{sub_msg}"), "result": j}})).collect();
					if let Ok(Value::Array(a)) = serde_json::from_str::<Value>(&answer_for(&b, *batch_msg, &AnswerKind::Ok)) {
						items.extend(a);
					}
					Ok(ReceivedMessage::Text(Value::Array(items).to_string()))
				}
				EnvEvent::RecvError { after, what } => {
					if *after > 0 {
						shared.wait_sent(*after - 1).await;
					}
					sched::point(format!("env:recv-error:{k}")).await;
					Err(MockErr(what.clone()))
				}
			};
			let txt = match &item {
				Ok(ReceivedMessage::Text(t)) => t.clone(),
				Ok(_) => String::new(),
				Err(e) => format!("ERROR:{e}"),
			};
			sched::log(format!("env:{k}:deliver:{txt}"));
			{
				let mut l = log.lock().unwrap();
				l.env_fired += 1;
				let p = sched::pos();
				l.deliveries.push((k, p, txt));
			}
			let item = match item {
				Ok(ReceivedMessage::Text(t)) if !frame_ws.is_empty() => Ok(ReceivedMessage::Text(format!("{frame_ws}{t}{frame_ws}"))),
				other => other,
			};
			shared.push_rx(item);
			env_notify.notify_waiters();
		});
	}
	CliState { shared, log, client }
}

pub fn lib_mask_client(label: &str) -> bool {
	!label.starts_with("server:")
}

pub fn no_lib_points(label: &str) -> bool {
	!label.starts_with("server:") && !label.starts_with("client:")
}

pub fn basic_verdict(_status: Status) -> Verdict {
	Verdict { violations: vec![], outcome: String::new() }
}

/// Index of the wire message that front-end op `i` produced (None if it never reached the transport).
pub fn wire_index_of(sent: &[String], op: &FeOp, i: usize) -> Option<usize> {
	sent.iter().position(|m| {
		let Ok(v) = serde_json::from_str::<Value>(m) else { return false };
		match op {
			FeOp::Batch(_) | FeOp::LateBatch(_) | FeOp::BatchStr(_) => v.as_array().map_or(false, |a| a.first().and_then(|e| e.get("method")).and_then(|x| x.as_str()) == Some(&format!("bm{i}"))),
			FeOp::Subscribe | FeOp::SubscribeDrop | FeOp::SubscribeHold | FeOp::LateSubscribe => v.get("method").and_then(|x| x.as_str()) == Some("sub") && v.get("params") == Some(&json!([i])),
			FeOp::Notif => v.get("method").and_then(|x| x.as_str()) == Some("note") && v.get("params") == Some(&json!([i])),
			FeOp::Call | FeOp::LateCall | FeOp::AbandonCall | FeOp::CallPolledLate => v.get("method").and_then(|x| x.as_str()) == Some("m") && v.get("params") == Some(&json!([i])),
			FeOp::RegisterNotif | FeOp::NotifBurst(_) => false,
		}
	})
}

/// Every message the client puts on the wire must be valid JSON-RPC 2.0 (C15's emission clause, checked where the client runs).
pub fn wire_wellformed(sent: &[String]) -> Result<(), String> {
	for m in sent {
		let v: Value = serde_json::from_str(m).map_err(|e| format!("client emitted non-JSON {m:?}: {e}"))?;
		let items: Vec<&Value> = match &v {
			Value::Array(a) if !a.is_empty() => a.iter().collect(),
			Value::Object(_) => vec![&v],
			_ => return Err(format!("client emitted {m}")),
		};
		for it in items {
			if it.get("jsonrpc") != Some(&json!("2.0")) || !it.get("method").map_or(false, |x| x.is_string()) {
				return Err(format!("client emitted a message that is not a JSON-RPC 2.0 request/notification: {m}"));
			}
			if let Some(id) = it.get("id") {
				if !(id.is_u64() || id.is_string()) {
					return Err(format!("client emitted a request with id {id}: {m}"));
				}
			}
			if let Some(p) = it.get("params") {
				if !(p.is_array() || p.is_object()) {
					return Err(format!("client emitted params that are not structured: {m}"));
				}
			}
		}
	}
	Ok(())
}
