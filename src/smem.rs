//! SRV-MEM under SCHED: the TowerService the server uses per connection, served by
//! `serve_with_graceful_shutdown` over in-memory duplexes, with raw soketto / raw HTTP peers whose actions are
//! scheduling points, puppet subscription handlers whose steps are scheduling points, and an optional stop() actor.

use crate::sched;
use jsonrpsee_core::server::{Methods, RpcModule, SubscriptionCloseResponse, SubscriptionMessage, SubscriptionSink};
use jsonrpsee_server::{Server, ServerConfig, ServerHandle, stop_channel};
use jsonrpsee_types::ErrorObjectOwned;
use serde_json::{Value, json};
use std::collections::HashMap;
use std::sync::{Arc, Mutex};
use tokio::io::{AsyncReadExt, AsyncWriteExt};
use tokio::sync::Notify;
use tokio_util::compat::TokioAsyncReadCompatExt;

/// Server half of a connection: passes everything through and logs every write the server hands to the transport.
pub struct LoggedIo {
	inner: tokio::io::DuplexStream,
	conn: usize,
}

impl tokio::io::AsyncRead for LoggedIo {
	fn poll_read(mut self: std::pin::Pin<&mut Self>, cx: &mut std::task::Context<'_>, buf: &mut tokio::io::ReadBuf<'_>) -> std::task::Poll<std::io::Result<()>> {
		std::pin::Pin::new(&mut self.inner).poll_read(cx, buf)
	}
}

impl tokio::io::AsyncWrite for LoggedIo {
	fn poll_write(mut self: std::pin::Pin<&mut Self>, cx: &mut std::task::Context<'_>, buf: &[u8]) -> std::task::Poll<std::io::Result<usize>> {
		let r = std::pin::Pin::new(&mut self.inner).poll_write(cx, buf);
		if let std::task::Poll::Ready(Ok(n)) = &r {
			if *n > 0 {
				sched::log(format!("c{}:srv-write:{n}", self.conn));
			}
		}
		r
	}
	fn poll_flush(mut self: std::pin::Pin<&mut Self>, cx: &mut std::task::Context<'_>) -> std::task::Poll<std::io::Result<()>> {
		std::pin::Pin::new(&mut self.inner).poll_flush(cx)
	}
	fn poll_shutdown(mut self: std::pin::Pin<&mut Self>, cx: &mut std::task::Context<'_>) -> std::task::Poll<std::io::Result<()>> {
		let r = std::pin::Pin::new(&mut self.inner).poll_shutdown(cx);
		if r.is_ready() {
			sched::log(format!("c{}:srv-shutdown", self.conn));
		}
		r
	}
}

#[derive(Clone, Debug, PartialEq)]
pub enum HStep {
	Accept,
	/// accept(), but the handler gives up (drops the accept future) if the scheduler releases its give-up point first
	AcceptCancellable,
	Reject,
	DropPending,
	Send,
	/// send a notification too large for the connection's socket buffer (the writer stalls unless the peer reads)
	SendBig,
	TrySend,
	IsClosed,
	AwaitClosed,
	CloneSink,
	/// drop the i-th sink handle the handler holds (0 = the one returned by accept)
	DropSink(usize),
	/// send through the i-th handle
	SendVia(usize),
	ReturnNone,
	ReturnErr,
	ReturnMsg,
	/// reject() and return an error closing value in one go (no scheduling point in between)
	RejectThenReturnErr,
	/// drop the pending sink and return a closing message in one go
	DropPendingThenReturnMsg,
}

#[derive(Clone, Debug, PartialEq)]
pub enum PeerAct {
	/// subscribe with handler script #n
	Subscribe(usize),
	/// unsubscribe the subscription created by this connection's j-th Subscribe
	Unsub(usize),
	/// unsubscribe the subscription created by connection c's j-th Subscribe
	UnsubForeign(usize, usize),
	/// unsubscribe with this literal params value
	UnsubRaw(Value),
	/// ordinary call (method `add`)
	Call,
	/// call to a handler that parks at scheduling points (`slow`)
	SlowCall,
	/// send a WebSocket close frame and stop sending
	CloseFrame,
	/// drop the socket abruptly
	Drop,
	/// send bytes that are not a valid WebSocket frame (the server terminates the session)
	Garbage,
	/// an unsolicited Pong control frame (legal at any time, must not affect the session)
	Pong,
	/// a Ping control frame (the server answers with a Pong)
	Ping,
	/// stop reading from the socket but keep it open: the server's writer stalls once the socket buffer is full
	StopReading,
	/// a well-formed `add` call in one text frame with a padding parameter of this many bytes, chosen larger than
	/// `SrvCfg::max_req` (logged as `tx:OVERSIZED`)
	Oversized(usize),
}

#[derive(Clone, Debug, PartialEq)]
pub enum HttpAct {
	/// POST a call to `slow` (its handler parks at points) and read the response
	SlowCall,
	/// POST an ordinary call
	Call,
	/// send the request, then drop the socket before reading the response
	CallThenDrop,
	Drop,
}

#[derive(Clone, Debug, PartialEq)]
pub enum RawWsAct {
	/// a well-formed masked text frame carrying an `add` call
	Call,
	/// a frame with a reserved opcode: a protocol violation, the server terminates the session
	ReservedOpcode,
	/// keep the socket open and idle
	Idle,
	/// a call to `slow`, whose handler parks at scheduling points
	SlowCall,
}

#[derive(Clone, Debug)]
pub enum Conn {
	/// hand-written WebSocket peer (handshake and frames by hand), for protocol violations
	WsRaw(Vec<RawWsAct>),
	Ws(Vec<PeerAct>),
	Http(Vec<HttpAct>),
	/// a WebSocket upgrade request whose response is never read: the peer drops the socket right after sending it
	WsAbortedUpgrade,
}

pub struct SrvCfg {
	pub conns: Vec<Conn>,
	pub scripts: Vec<Vec<HStep>>,
	/// an actor that calls stop() at its own scheduling point
	pub stop: bool,
	pub stop_twice: bool,
	/// drop all server handles instead of calling stop()
	pub drop_handles: bool,
	pub max_subs: u32,
	pub max_conns: u32,
	pub buffer: u32,
	/// steps of the `slow` call handler (each preceded by a point)
	pub slow_steps: usize,
	/// the moment a WebSocket peer connects is a scheduling point of its own
	pub connect_points: bool,
	/// SRV-TCP: `Server::builder().build("127.0.0.1:0")` + `start()`, peers over loopback sockets
	pub tcp: bool,
	/// max_response_body_size (0 = the default) ...
	pub max_resp: u32,
	/// ... and subscription ids that are strings at least this wide (0 = small numeric ids)
	pub wide_ids: usize,
	/// server-side WebSocket pings every so many (virtual) milliseconds; a peer that has not answered by the next tick
	/// is closed for inactivity (inactive_limit 0, max_failures 1)
	pub ping_ms: Option<u64>,
	/// SRV-LOW: WebSocket connections are served through the low-level `jsonrpsee_server::ws::connect` (as in the
	/// repository's `jsonrpsee_server_low_level_api` example), HTTP requests through `http::call_with_service_builder`,
	/// instead of the `TowerService`
	pub low_ws: bool,
	/// the id provider hands out the same subscription id every time (ids may be reused once a subscription has ended);
	/// handler log tags then carry `#<script index>` to tell the instances apart
	pub const_ids: bool,
	/// every connection's service is made with `builder.clone().set_http_middleware(..)` (an empty layer stack), the way
	/// an application adds per-connection HTTP middleware; the connection guard must stay shared
	pub per_conn_http_mw: bool,
	/// the configuration builder gets its transport restriction as the LAST call (`Some(true)` = ws_only, `Some(false)` =
	/// http_only), after every limit has been set
	pub restrict_last: Option<bool>,
	/// max_request_body_size (0 = the default)
	pub max_req: u32,
}

impl Default for SrvCfg {
	fn default() -> Self {
		SrvCfg { conns: vec![], scripts: vec![], stop: false, stop_twice: false, drop_handles: false, max_subs: 16, max_conns: 16, buffer: 16, slow_steps: 1, connect_points: false, tcp: false, max_resp: 0, wide_ids: 0, ping_ms: None, low_ws: false, const_ids: false, per_conn_http_mw: false, restrict_last: None, max_req: 0 }
	}
}

pub struct SrvState {
	pub handle: Option<ServerHandle>,
	pub serve_done: Arc<Mutex<Vec<bool>>>,
	pub sub_ids: Arc<Mutex<HashMap<(usize, usize), Value>>>,
	pub guard_probe: Arc<Mutex<Vec<usize>>>,
}

struct Ctx {
	scripts: Vec<Vec<HStep>>,
	slow_steps: usize,
	tag_with_script: bool,
}

fn methods(ctx: Ctx) -> Methods {
	let mut m = RpcModule::new(ctx);
	m.register_method("add", |p, _, _| {
		sched::log("call:add");
		let (a, b): (u64, u64) = p.parse()?;
		Ok::<_, ErrorObjectOwned>(a + b)
	})
	.unwrap();
	m.register_async_method("slow", |p, ctx, ext| async move {
		let tag: u64 = p.one().unwrap_or(0);
		let conn = ext.get::<jsonrpsee_server::ConnectionId>().map(|c| c.0).unwrap_or(99);
		// available permits as seen from inside a running call (C11)
		let avail = ext.get::<jsonrpsee_server::ConnectionGuard>().map(|g| g.available_connections());
		sched::log(format!("slow:{conn}:{tag}:start:avail={avail:?}"));
		for k in 0..ctx.slow_steps {
			sched::point(format!("slow:{conn}:{tag}:step{k}")).await;
		}
		sched::log(format!("slow:{conn}:{tag}:finish"));
		Ok::<_, ErrorObjectOwned>(tag)
	})
	.unwrap();
	m.register_subscription("sub", "n", "unsub", |params, pending, ctx, _| async move {
		let script_idx: usize = params.one().unwrap_or(0);
		let script = ctx.scripts.get(script_idx).cloned().unwrap_or_default();
		let conn = pending.connection_id().0;
		let sid = serde_json::to_string(&pending.subscription_id()).unwrap();
		let tag = if ctx.tag_with_script { format!("h:{conn}:{sid}#{script_idx}") } else { format!("h:{conn}:{sid}") };
		sched::log(format!("{tag}:start"));
		sched::log(format!("{tag}:script:{script_idx}"));
		// the handler future ends by returning, by being dropped (the library cancels it when accept() was refused) or by unwinding
		struct Gone(String);
		impl Drop for Gone {
			fn drop(&mut self) {
				sched::log(format!("{}:gone", self.0));
			}
		}
		let _gone = Gone(tag.clone());
		let mut pending = Some(pending);
		let mut sinks: Vec<Option<SubscriptionSink>> = Vec::new();
		let mut n = 0u64;
		for (k, step) in script.iter().enumerate() {
			sched::point(format!("{tag}:{k}:{step:?}")).await;
			match step {
				HStep::Accept => match pending.take() {
					Some(p) => match p.accept().await {
						Ok(s) => {
							sched::log(format!("{tag}:accept:ok"));
							sinks.push(Some(s));
						}
						Err(_) => {
							sched::log(format!("{tag}:accept:err"));
							return SubscriptionCloseResponse::NotifErr("after-failed-accept".into());
						}
					},
					None => {}
				},
				HStep::AcceptCancellable => {
					if let Some(p) = pending.take() {
						tokio::select! {
							biased;
							r = p.accept() => match r {
								Ok(s) => {
									sched::log(format!("{tag}:accept:ok"));
									sinks.push(Some(s));
								}
								Err(_) => {
									sched::log(format!("{tag}:accept:err"));
									return SubscriptionCloseResponse::NotifErr("after-failed-accept".into());
								}
							},
							_ = sched::point(format!("{tag}:give-up-accept")) => {
								sched::log(format!("{tag}:accept:cancelled"));
							}
						}
					}
				}
				HStep::Reject => {
					if let Some(p) = pending.take() {
						p.reject(ErrorObjectOwned::owned::<()>(4001, "rejected", None)).await;
						sched::log(format!("{tag}:reject"));
					}
				}
				HStep::DropPending => {
					drop(pending.take());
					sched::log(format!("{tag}:drop-pending"));
				}
				HStep::Send | HStep::SendVia(_) | HStep::TrySend | HStep::SendBig => {
					let via = if let HStep::SendVia(i) = step { *i } else { sinks.iter().position(|s| s.is_some()).unwrap_or(0) };
					if let Some(Some(s)) = sinks.get_mut(via) {
						n += 1;
						let msg = if *step == HStep::SendBig {
							// larger than the in-memory socket buffer (64 kB per direction)
							SubscriptionMessage::from(serde_json::value::to_raw_value(&format!("{n}:{}", "x".repeat(200_000))).unwrap())
						} else {
							SubscriptionMessage::from(serde_json::value::to_raw_value(&n).unwrap())
						};
						sched::log(format!("{tag}:send:{n}:begin"));
						let ok = if *step == HStep::TrySend { s.try_send(msg).is_ok() } else { s.send(msg).await.is_ok() };
						sched::log(format!("{tag}:send:{n}:{}", if ok { "ok" } else { "err" }));
					}
				}
				HStep::IsClosed => {
					for (i, s) in sinks.iter().enumerate() {
						if let Some(s) = s {
							sched::log(format!("{tag}:is_closed:{i}:{}", s.is_closed()));
						}
					}
				}
				HStep::AwaitClosed => {
					if let Some(Some(s)) = sinks.iter().find(|s| s.is_some()) {
						s.closed().await;
						sched::log(format!("{tag}:closed-resolved"));
					}
				}
				HStep::CloneSink => {
					if let Some(Some(s)) = sinks.iter().find(|s| s.is_some()) {
						let c = s.clone();
						sinks.push(Some(c));
						sched::log(format!("{tag}:clone"));
					}
				}
				HStep::DropSink(i) => {
					if let Some(s) = sinks.get_mut(*i) {
						*s = None;
						sched::log(format!("{tag}:drop-sink:{i}"));
					}
				}
				HStep::RejectThenReturnErr => {
					if let Some(p) = pending.take() {
						p.reject(ErrorObjectOwned::owned::<()>(4001, "rejected", None)).await;
						sched::log(format!("{tag}:reject"));
					}
					sched::log(format!("{tag}:return:err"));
					return SubscriptionCloseResponse::NotifErr("handler-error".into());
				}
				HStep::DropPendingThenReturnMsg => {
					drop(pending.take());
					sched::log(format!("{tag}:drop-pending"));
					sched::log(format!("{tag}:return:msg"));
					return SubscriptionCloseResponse::Notif(SubscriptionMessage::from(serde_json::value::to_raw_value(&"final").unwrap()));
				}
				HStep::ReturnNone => {
					sched::log(format!("{tag}:return:none"));
					return SubscriptionCloseResponse::None;
				}
				HStep::ReturnErr => {
					sched::log(format!("{tag}:return:err"));
					return SubscriptionCloseResponse::NotifErr("handler-error".into());
				}
				HStep::ReturnMsg => {
					sched::log(format!("{tag}:return:msg"));
					return SubscriptionCloseResponse::Notif(SubscriptionMessage::from(serde_json::value::to_raw_value(&"final").unwrap()));
				}
			}
		}
		// the script is over without a return: keep holding what is held
		sched::log(format!("{tag}:parked"));
		std::future::pending::<()>().await;
		SubscriptionCloseResponse::None
	})
	.unwrap();
	m.into()
}

fn server_cfg(c: &SrvCfg) -> ServerConfig {
	match c.restrict_last {
		Some(true) => server_cfg_builder(c).ws_only().build(),
		Some(false) => server_cfg_builder(c).http_only().build(),
		None => server_cfg_builder(c).build(),
	}
}

fn server_cfg_builder(c: &SrvCfg) -> jsonrpsee_server::ServerConfigBuilder {
	let mut b = ServerConfig::builder().max_subscriptions_per_connection(c.max_subs).max_connections(c.max_conns).set_message_buffer_capacity(c.buffer);
	if c.max_resp > 0 {
		b = b.max_response_body_size(c.max_resp);
	}
	if c.max_req > 0 {
		b = b.max_request_body_size(c.max_req);
	}
	if let Some(ms) = c.ping_ms {
		b = b.enable_ws_ping(
			jsonrpsee_server::PingConfig::new().ping_interval(std::time::Duration::from_millis(ms)).inactive_limit(std::time::Duration::ZERO).max_failures(1),
		);
	}
	if c.const_ids {
		#[derive(Debug)]
		struct ConstId;
		impl jsonrpsee_server::IdProvider for ConstId {
			fn next_id(&self) -> jsonrpsee_types::SubscriptionId<'static> {
				jsonrpsee_types::SubscriptionId::Str("X".into())
			}
		}
		return b.set_id_provider(ConstId);
	}
	if c.wide_ids > 0 {
		b.set_id_provider(crate::srv::WideCounterIds(c.wide_ids, std::sync::atomic::AtomicU64::new(1)))
	} else {
		b.set_id_provider(crate::srv::CounterIds(std::sync::atomic::AtomicU64::new(1)))
	}
}

/// SRV-TCP assembly: the real `Server` (accept loop, process_connection) over loopback sockets.
fn setup_tcp(cfg: &SrvCfg) -> SrvState {
	let serve_done = Arc::new(Mutex::new(vec![true; cfg.conns.len()]));
	let sub_ids: Arc<Mutex<HashMap<(usize, usize), Value>>> = Arc::new(Mutex::new(HashMap::new()));
	let sub_notify = Arc::new(Notify::new());
	let methods = methods(Ctx { scripts: cfg.scripts.clone(), slow_steps: cfg.slow_steps, tag_with_script: cfg.const_ids });
	// binding is synchronous: a std listener handed to the builder
	let listener = std::net::TcpListener::bind("127.0.0.1:0").expect("bind loopback");
	listener.set_nonblocking(true).unwrap();
	let addr = listener.local_addr().unwrap();
	let server = Server::builder().set_config(server_cfg(cfg)).build_from_tcp(listener).expect("server from listener");
	let handle = server.start(methods);
	let mut handle = Some(handle);
	for (c, conn) in cfg.conns.iter().cloned().enumerate() {
		let sub_ids = sub_ids.clone();
		let sub_notify = sub_notify.clone();
		let connect_points = cfg.connect_points;
		tokio::spawn(async move {
			let io = match tokio::net::TcpStream::connect(addr).await {
				Ok(s) => s,
				Err(e) => {
					sched::log(format!("c{c}:connect-failed:{e}"));
					return;
				}
			};
			let _ = io.set_nodelay(true);
			match conn {
				Conn::Ws(script) => ws_peer(c, io, script, sub_ids, sub_notify, connect_points).await,
				Conn::Http(script) => http_peer(c, io, script).await,
				Conn::WsRaw(script) => raw_ws_peer(c, io, script).await,
				Conn::WsAbortedUpgrade => {}
			}
		});
	}
	if !cfg.drop_handles {
		let h = handle.as_ref().unwrap().clone();
		tokio::spawn(async move {
			h.stopped().await;
			sched::log("stopped:resolved");
		});
	}
	if cfg.stop {
		let h = handle.as_ref().unwrap().clone();
		let twice = cfg.stop_twice;
		tokio::spawn(async move {
			sched::point("env:stop").await;
			let r = h.stop();
			sched::log(format!("stop:called:{}", r.is_ok()));
			if twice {
				sched::point("env:stop-again").await;
				let r = h.stop();
				sched::log(format!("stop:called-again:{}", r.is_ok()));
			}
		});
	}
	if cfg.drop_handles {
		let h = handle.take();
		tokio::spawn(async move {
			sched::point("env:drop-handles").await;
			drop(h);
			sched::log("handles:dropped");
		});
	}
	SrvState { handle, serve_done, sub_ids, guard_probe: Arc::new(Mutex::new(Vec::new())) }
}

/// Build everything inside the runtime and spawn all actors.
pub fn setup(cfg: &SrvCfg) -> SrvState {
	if cfg.tcp {
		return setup_tcp(cfg);
	}
	let (stop, handle) = stop_channel();
	let builder = Server::builder().set_config(server_cfg(cfg)).to_service_builder();
	let methods = methods(Ctx { scripts: cfg.scripts.clone(), slow_steps: cfg.slow_steps, tag_with_script: cfg.const_ids });
	let serve_done = Arc::new(Mutex::new(vec![false; cfg.conns.len()]));
	let sub_ids: Arc<Mutex<HashMap<(usize, usize), Value>>> = Arc::new(Mutex::new(HashMap::new()));
	let sub_notify = Arc::new(Notify::new());
	let low_guard = jsonrpsee_server::ConnectionGuard::new(cfg.max_conns as usize);
	for (c, conn) in cfg.conns.iter().cloned().enumerate() {
		let (a, b) = tokio::io::duplex(1 << 16);
		let stop2 = stop.clone();
		let done = serve_done.clone();
		if cfg.low_ws {
			// low-level assembly: the application's own tower service calls ws::connect and spawns the connection future
			let (methods, scfg, guard, stop3) = (methods.clone(), server_cfg(cfg), low_guard.clone(), stop.clone());
			let svc = tower::service_fn(move |mut req: http::Request<hyper::body::Incoming>| {
				let (methods, scfg, guard, stop3) = (methods.clone(), scfg.clone(), guard.clone(), stop3.clone());
				async move {
					// what the stock server puts into every request before handing it on
					req.extensions_mut().insert::<jsonrpsee_server::ConnectionGuard>(guard.clone());
					req.extensions_mut().insert::<jsonrpsee_server::ConnectionId>((c as u32).into());
					let Some(permit) = guard.try_acquire() else {
						return Ok::<_, std::convert::Infallible>(jsonrpsee_server::http::response::too_many_requests());
					};
					let conn_state = jsonrpsee_server::ConnectionState::new(stop3, c as u32, permit);
					if !jsonrpsee_server::ws::is_upgrade_request(&req) {
						// the low-level HTTP entry point: the permit travels in the ConnectionState and is held while the call runs
						return Ok(jsonrpsee_server::http::call_with_service_builder(req, scfg, conn_state, methods, jsonrpsee_server::middleware::rpc::RpcServiceBuilder::new()).await);
					}
					match jsonrpsee_server::ws::connect(req, scfg, methods, conn_state, jsonrpsee_server::middleware::rpc::RpcServiceBuilder::new()).await {
						Ok((rp, conn_fut)) => {
							tokio::spawn(async move {
								conn_fut.await;
								sched::log(format!("c{c}:session-closed"));
							});
							Ok(rp)
						}
						Err(rp) => Ok(rp),
					}
				}
			});
			tokio::spawn(async move {
				let r = jsonrpsee_server::serve_with_graceful_shutdown(LoggedIo { inner: a, conn: c }, svc, stop2.shutdown()).await;
				sched::log(format!("c{c}:serve-future-done:{}", r.is_ok()));
				done.lock().unwrap()[c] = true;
			});
		} else {
			let mut svc = if cfg.per_conn_http_mw {
				builder.clone().set_http_middleware(tower::ServiceBuilder::new()).build(methods.clone(), stop.clone())
			} else {
				builder.clone().build(methods.clone(), stop.clone())
			};
			// the server's own signal that a WebSocket session is over
			let session_closed = svc.on_session_closed();
			tokio::spawn(async move {
				session_closed.await;
				sched::log(format!("c{c}:session-closed"));
			});
			tokio::spawn(async move {
				let r = jsonrpsee_server::serve_with_graceful_shutdown(LoggedIo { inner: a, conn: c }, svc, stop2.shutdown()).await;
				sched::log(format!("c{c}:serve-future-done:{}", r.is_ok()));
				done.lock().unwrap()[c] = true;
			});
		}
		match conn {
			Conn::Ws(script) => {
				let sub_ids = sub_ids.clone();
				let sub_notify = sub_notify.clone();
				tokio::spawn(ws_peer(c, b, script, sub_ids, sub_notify, cfg.connect_points));
			}
			Conn::Http(script) => {
				tokio::spawn(http_peer(c, b, script));
			}
			Conn::WsRaw(script) => {
				tokio::spawn(raw_ws_peer(c, b, script));
			}
			Conn::WsAbortedUpgrade => {
				tokio::spawn(async move {
					let mut b = b;
					sched::point(format!("c{c}:send-upgrade")).await;
					let req = "GET / HTTP/1.1\r\nhost: localhost\r\nupgrade: websocket\r\nconnection: upgrade\r\nsec-websocket-key: dGhlIHNhbXBsZSBub25jZQ==\r\nsec-websocket-version: 13\r\n\r\n";
					let _ = b.write_all(req.as_bytes()).await;
					sched::log(format!("c{c}:upgrade-request-sent"));
					sched::point(format!("c{c}:abort")).await;
					drop(b);
					sched::log(format!("c{c}:aborted"));
				});
			}
		}
	}
	drop(stop);
	let mut handle = Some(handle);
	// stopped() watcher (it owns a handle, so it cannot exist when the scenario is "every handle is dropped")
	if !cfg.drop_handles {
		let h = handle.as_ref().unwrap().clone();
		tokio::spawn(async move {
			h.stopped().await;
			sched::log("stopped:resolved");
		});
	}
	if cfg.stop {
		let h = handle.as_ref().unwrap().clone();
		let twice = cfg.stop_twice;
		tokio::spawn(async move {
			sched::point("env:stop").await;
			let r = h.stop();
			sched::log(format!("stop:called:{}", r.is_ok()));
			if twice {
				sched::point("env:stop-again").await;
				let r = h.stop();
				sched::log(format!("stop:called-again:{}", r.is_ok()));
			}
		});
	}
	if cfg.drop_handles {
		let h = handle.take();
		tokio::spawn(async move {
			sched::point("env:drop-handles").await;
			drop(h);
			sched::log("handles:dropped");
		});
	}
	SrvState { handle, serve_done, sub_ids, guard_probe: Arc::new(Mutex::new(Vec::new())) }
}

async fn ws_peer<IO: tokio::io::AsyncRead + tokio::io::AsyncWrite + Unpin + Send + 'static>(c: usize, io: IO, script: Vec<PeerAct>, sub_ids: Arc<Mutex<HashMap<(usize, usize), Value>>>, sub_notify: Arc<Notify>, connect_point: bool) {
	if connect_point {
		sched::point(format!("c{c}:connect")).await;
	}
	sched::log(format!("c{c}:handshake-sent"));
	let mut client = soketto::handshake::Client::new(io.compat(), "localhost", "/");
	match client.handshake().await {
		Ok(soketto::handshake::ServerResponse::Accepted { .. }) => {}
		Ok(soketto::handshake::ServerResponse::Rejected { status_code }) => {
			sched::log(format!("c{c}:handshake-rejected:{status_code}"));
			return;
		}
		other => {
			sched::log(format!("c{c}:handshake-failed:{}", other.is_ok()));
			return;
		}
	}
	sched::log(format!("c{c}:ws-open"));
	let (mut sender, mut receiver) = client.into_builder().finish();
	// reader
	let reader = {
		let sub_ids = sub_ids.clone();
		let sub_notify = sub_notify.clone();
		tokio::spawn(async move {
			let mut buf = Vec::new();
			loop {
				buf.clear();
				match receiver.receive(&mut buf).await {
					Ok(soketto::Incoming::Data(_)) => {
						let mut txt = String::from_utf8_lossy(&buf).to_string();
						if txt.len() > 4096 {
							// a SendBig payload "<n>:xxxx…": logged as the notification with result n
							if let Ok(mut v) = serde_json::from_str::<Value>(&txt) {
								let n = v["params"]["result"].as_str().and_then(|r| r.split(':').next()).and_then(|d| d.parse::<u64>().ok());
								if let Some(n) = n {
									v["params"]["result"] = json!(n);
									txt = v.to_string();
								}
							}
						}
						sched::log(format!("c{c}:rx:{txt}"));
						if let Ok(v) = serde_json::from_str::<Value>(&txt) {
							// response to the j-th subscribe: id "s<j>"
							if let Some(j) = v["id"].as_str().and_then(|s| s.strip_prefix('s')).and_then(|s| s.parse::<usize>().ok()) {
								if let Some(r) = v.get("result") {
									sub_ids.lock().unwrap().insert((c, j), r.clone());
									sub_notify.notify_waiters();
								}
							}
						}
					}
					Ok(soketto::Incoming::Pong(_)) => {}
					Ok(soketto::Incoming::Closed(_)) | Err(_) => {
						sched::log(format!("c{c}:eof"));
						break;
					}
				}
			}
		})
	};
	let mut nsub = 0usize;
	let mut ncall = 0usize;
	let mut alive = true;
	let mut stalled = false;
	for (k, act) in script.into_iter().enumerate() {
		// an unsubscribe needs the subscription id the server assigned: wait for that response first
		let wait_for = match &act {
			PeerAct::Unsub(j) => Some((c, *j)),
			PeerAct::UnsubForeign(c2, j) => Some((*c2, *j)),
			_ => None,
		};
		if let Some(key) = wait_for {
			loop {
				let n = sub_notify.notified();
				if sub_ids.lock().unwrap().contains_key(&key) {
					break;
				}
				n.await;
			}
		}
		sched::point(format!("c{c}:act{k}:{act:?}")).await;
		if !alive {
			continue;
		}
		let msg: Option<String> = match &act {
			PeerAct::Subscribe(script) => {
				let m = json!({"jsonrpc":"2.0","id": format!("s{nsub}"), "method":"sub","params":[script]}).to_string();
				nsub += 1;
				Some(m)
			}
			PeerAct::Unsub(j) => {
				let id = sub_ids.lock().unwrap().get(&(c, *j)).cloned().unwrap();
				Some(json!({"jsonrpc":"2.0","id": format!("u{k}"), "method":"unsub","params":[id]}).to_string())
			}
			PeerAct::UnsubForeign(c2, j) => {
				let id = sub_ids.lock().unwrap().get(&(*c2, *j)).cloned().unwrap();
				Some(json!({"jsonrpc":"2.0","id": format!("u{k}"), "method":"unsub","params":[id]}).to_string())
			}
			PeerAct::UnsubRaw(p) => Some(json!({"jsonrpc":"2.0","id": format!("u{k}"), "method":"unsub","params": p}).to_string()),
			PeerAct::Call => {
				ncall += 1;
				Some(json!({"jsonrpc":"2.0","id": format!("c{ncall}"), "method":"add","params":[ncall, 1]}).to_string())
			}
			PeerAct::SlowCall => {
				ncall += 1;
				Some(json!({"jsonrpc":"2.0","id": format!("c{ncall}"), "method":"slow","params":[ncall]}).to_string())
			}
			PeerAct::CloseFrame => {
				sched::log(format!("c{c}:tx:CLOSE"));
				let _ = sender.close().await;
				alive = false;
				None
			}
			PeerAct::Drop => {
				sched::log(format!("c{c}:tx:DROP"));
				reader.abort();
				alive = false;
				// dropping sender and receiver closes the duplex
				break;
			}
			PeerAct::Pong | PeerAct::Ping => {
				let payload: &[u8] = b"hb";
				let data = soketto::data::ByteSlice125::try_from(payload).unwrap();
				let r = if act == PeerAct::Pong { sender.send_pong(data).await } else { sender.send_ping(data).await };
				let f = sender.flush().await;
				sched::log(format!("c{c}:tx:{}{}", if act == PeerAct::Pong { "PONG" } else { "PING" }, if r.is_err() || f.is_err() { ":failed" } else { "" }));
				None
			}
			PeerAct::StopReading => {
				sched::log(format!("c{c}:stops-reading"));
				reader.abort();
				stalled = true;
				None
			}
			PeerAct::Oversized(pad) => {
				// not logged as an ordinary tx line: the monitors count these separately
				let m = json!({"jsonrpc":"2.0","id": format!("big{k}"), "method":"add","params":[1, 1, "x".repeat(*pad)]}).to_string();
				sched::log(format!("c{c}:tx:OVERSIZED:{k}"));
				if sender.send_text(&m).await.is_err() || sender.flush().await.is_err() {
					sched::log(format!("c{c}:tx-failed"));
				}
				None
			}
			PeerAct::Garbage => {
				sched::log(format!("c{c}:tx:GARBAGE"));
				// a text frame with invalid UTF-8 is a protocol error
				let _ = sender.send_binary_mut(&mut []).await;
				None
			}
		};
		if let Some(m) = msg {
			sched::log(format!("c{c}:tx:{m}"));
			if sender.send_text(&m).await.is_err() || sender.flush().await.is_err() {
				sched::log(format!("c{c}:tx-failed"));
			}
		}
	}
	if stalled {
		// keep the socket open without reading, for the rest of the execution
		std::future::pending::<()>().await;
	}
	if alive {
		// keep the connection open until the server closes it
		let _ = reader.await;
	}
}

/// Read one HTTP/1.1 response (status line, headers, content-length body).
async fn read_http_response<IO: tokio::io::AsyncRead + Unpin>(io: &mut IO) -> Option<(u16, String)> {
	let mut buf: Vec<u8> = Vec::new();
	let mut tmp = [0u8; 1024];
	loop {
		if let Some(pos) = buf.windows(4).position(|w| w == b"\r\n\r\n") {
			let head = String::from_utf8_lossy(&buf[..pos]).to_string();
			let status: u16 = head.split_whitespace().nth(1)?.parse().ok()?;
			let len: usize = head.lines().find_map(|l| l.to_ascii_lowercase().strip_prefix("content-length:").map(|v| v.trim().parse::<usize>().unwrap_or(0))).unwrap_or(0);
			let mut body = buf[pos + 4..].to_vec();
			while body.len() < len {
				let n = io.read(&mut tmp).await.ok()?;
				if n == 0 {
					return None;
				}
				body.extend_from_slice(&tmp[..n]);
			}
			return Some((status, String::from_utf8_lossy(&body[..len]).to_string()));
		}
		let n = io.read(&mut tmp).await.ok()?;
		if n == 0 {
			return None;
		}
		buf.extend_from_slice(&tmp[..n]);
	}
}

async fn http_peer<IO: tokio::io::AsyncRead + tokio::io::AsyncWrite + Unpin + Send + 'static>(c: usize, mut io: IO, script: Vec<HttpAct>) {
	let mut n = 0;
	for (k, act) in script.into_iter().enumerate() {
		sched::point(format!("c{c}:act{k}:{act:?}")).await;
		let (method, drop_after) = match act {
			HttpAct::SlowCall => ("slow", false),
			HttpAct::Call => ("add", false),
			HttpAct::CallThenDrop => ("slow", true),
			HttpAct::Drop => {
				sched::log(format!("c{c}:tx:DROP"));
				return;
			}
		};
		n += 1;
		let body = if method == "slow" {
			json!({"jsonrpc":"2.0","id": format!("c{n}"), "method":"slow","params":[n]}).to_string()
		} else {
			json!({"jsonrpc":"2.0","id": format!("c{n}"), "method":"add","params":[n, 1]}).to_string()
		};
		let req = format!("POST / HTTP/1.1\r\nhost: localhost\r\ncontent-type: application/json\r\ncontent-length: {}\r\n\r\n{}", body.len(), body);
		sched::log(format!("c{c}:tx:{body}"));
		if io.write_all(req.as_bytes()).await.is_err() {
			sched::log(format!("c{c}:tx-failed"));
			return;
		}
		if drop_after {
			sched::point(format!("c{c}:drop-before-response")).await;
			sched::log(format!("c{c}:tx:DROP"));
			return;
		}
		match read_http_response(&mut io).await {
			Some((status, body)) => sched::log(format!("c{c}:rx:{status}:{body}")),
			None => {
				sched::log(format!("c{c}:eof"));
				return;
			}
		}
	}
	// keep-alive: wait for the server to close
	let mut tmp = [0u8; 16];
	loop {
		match io.read(&mut tmp).await {
			Ok(0) | Err(_) => {
				sched::log(format!("c{c}:eof"));
				return;
			}
			Ok(_) => {}
		}
	}
}

/// Parsed view of a trace for the monitors.
pub struct TraceView<'a> {
	pub lines: &'a [String],
}

impl<'a> TraceView<'a> {
	pub fn pos(&self, pred: impl Fn(&str) -> bool) -> Option<usize> {
		self.lines.iter().position(|l| pred(l))
	}
	pub fn frames(&self, c: usize) -> Vec<(usize, Value)> {
		let pre = format!("c{c}:rx:");
		self.lines.iter().enumerate().filter_map(|(i, l)| l.strip_prefix(&pre).and_then(|t| serde_json::from_str::<Value>(t).ok()).map(|v| (i, v))).collect()
	}
}

fn masked_frame(opcode: u8, payload: &[u8]) -> Vec<u8> {
	let mut f = vec![0x80 | opcode];
	if payload.len() < 126 {
		f.push(0x80 | payload.len() as u8);
	} else {
		f.push(0x80 | 126);
		f.extend_from_slice(&(payload.len() as u16).to_be_bytes());
	}
	f.extend_from_slice(&[0, 0, 0, 0]);
	f.extend_from_slice(payload);
	f
}

async fn raw_ws_peer<IO: tokio::io::AsyncRead + tokio::io::AsyncWrite + Unpin + Send + 'static>(c: usize, mut io: IO, script: Vec<RawWsAct>) {
	sched::point(format!("c{c}:connect")).await;
	sched::log(format!("c{c}:handshake-sent"));
	let req = "GET / HTTP/1.1\r\nhost: localhost\r\nupgrade: websocket\r\nconnection: upgrade\r\nsec-websocket-key: dGhlIHNhbXBsZSBub25jZQ==\r\nsec-websocket-version: 13\r\n\r\n";
	if io.write_all(req.as_bytes()).await.is_err() {
		return;
	}
	// read the response head
	let mut buf = Vec::new();
	let mut tmp = [0u8; 512];
	loop {
		if buf.windows(4).any(|w| w == b"\r\n\r\n") {
			break;
		}
		match io.read(&mut tmp).await {
			Ok(0) | Err(_) => {
				sched::log(format!("c{c}:eof"));
				return;
			}
			Ok(n) => buf.extend_from_slice(&tmp[..n]),
		}
	}
	let head = String::from_utf8_lossy(&buf).to_string();
	let status: u16 = head.split_whitespace().nth(1).and_then(|x| x.parse().ok()).unwrap_or(0);
	if status != 101 {
		sched::log(format!("c{c}:handshake-rejected:{status}"));
		return;
	}
	sched::log(format!("c{c}:ws-open"));
	let mut n = 0;
	for (k, act) in script.into_iter().enumerate() {
		sched::point(format!("c{c}:act{k}:{act:?}")).await;
		match act {
			RawWsAct::Call => {
				n += 1;
				let body = json!({"jsonrpc":"2.0","id": format!("c{n}"), "method":"add","params":[n, 1]}).to_string();
				sched::log(format!("c{c}:tx:{body}"));
				let _ = io.write_all(&masked_frame(1, body.as_bytes())).await;
			}
			RawWsAct::ReservedOpcode => {
				sched::log(format!("c{c}:tx:RESERVED-OPCODE"));
				let _ = io.write_all(&masked_frame(3, b"x")).await;
			}
			RawWsAct::Idle => {}
			RawWsAct::SlowCall => {
				n += 1;
				let body = json!({"jsonrpc":"2.0","id": format!("c{n}"), "method":"slow","params":[n]}).to_string();
				sched::log(format!("c{c}:tx:{body}"));
				let _ = io.write_all(&masked_frame(1, body.as_bytes())).await;
			}
		}
	}
	// keep the socket open (never closes it): read whatever the server sends until it closes
	loop {
		match io.read(&mut tmp).await {
			Ok(0) | Err(_) => {
				sched::log(format!("c{c}:eof"));
				return;
			}
			Ok(k) => {
				// unmasked server frames: log text payloads of short frames
				let d = &tmp[..k];
				if d.len() >= 2 && d[0] == 0x81 && (d[1] as usize) < 126 && d.len() >= 2 + d[1] as usize {
					sched::log(format!("c{c}:rx:{}", String::from_utf8_lossy(&d[2..2 + d[1] as usize])));
				}
			}
		}
	}
}
