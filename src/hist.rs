//! HIST: explicit-state breadth-first search over operation histories (DESIGN §2.2).
//! A state is represented by the first history that reaches it; every transition re-executes
//! `history ++ [op]` on a fresh real object and compares it with the reference model.

use crate::par::par_for_leg;
use crate::report::Reporter;
use serde_json::{Value, json};
use std::collections::HashSet;
use std::hash::Hash;
use std::sync::Mutex;
use std::sync::atomic::{AtomicU64, Ordering};

pub struct Step<K> {
	/// canonical key of the reached state; None = the op is not enabled here (no transition)
	pub key: Option<K>,
	/// (signature, what)
	pub violations: Vec<(String, String)>,
}

#[derive(Debug, Default)]
pub struct HistStats {
	pub states: u64,
	pub transitions: u64,
	pub depth: usize,
	pub fixpoint: bool,
}

/// BFS to `max_depth` (or to the fixpoint if it is reached earlier).
pub fn bfs<Op, K, S, MK, F>(rep: &Reporter, name: &str, init_key: K, menu: &[Op], max_depth: usize, mk: MK, step: F) -> HistStats
where
	Op: Clone + Send + Sync + std::fmt::Debug,
	K: Hash + Eq + Send + Clone,
	MK: Fn() -> S + Sync,
	F: Fn(&mut S, &[Op]) -> Step<K> + Sync,
{
	let leg = rep.next_leg();
	if let Some((fleg, hidx)) = &rep.replay_filter {
		// replay mode: evaluate exactly the recorded history (menu indices)
		if *fleg == leg && hidx.iter().all(|k| *k < menu.len()) && !hidx.is_empty() {
			let hist: Vec<Op> = hidx.iter().map(|k| menu[*k].clone()).collect();
			let mut st = mk();
			crate::report::set_case_hist(leg, hidx);
			let r = step(&mut st, &hist);
			for (sig, what) in r.violations {
				rep.violation(&sig, &what, json!({"engine":"HIST","model": name, "history": format!("{hist:?}")}));
			}
			crate::report::clear_case();
		}
		return HistStats::default();
	}
	let seen: Mutex<HashSet<K>> = Mutex::new(HashSet::new());
	seen.lock().unwrap().insert(init_key);
	// histories are kept as menu indices
	let mut frontier: Vec<Vec<usize>> = vec![vec![]];
	let transitions = AtomicU64::new(0);
	let mut depth = 0;
	let mut fixpoint = false;
	let mut per_depth = Vec::new();
	while depth < max_depth {
		let next: Mutex<Vec<Vec<usize>>> = Mutex::new(Vec::new());
		let n = frontier.len() * menu.len();
		par_for_leg(rep, leg, false, n, 8, &mk, |i, st, local| {
			let mut hidx = frontier[i / menu.len()].clone();
			hidx.push(i % menu.len());
			let hist: Vec<Op> = hidx.iter().map(|k| menu[*k].clone()).collect();
			crate::report::set_case_hist(leg, &hidx);
			let r = step(st, &hist);
			let Some(key) = r.key else {
				crate::report::clear_case();
				return;
			};
			transitions.fetch_add(1, Ordering::Relaxed);
			let bad = !r.violations.is_empty();
			for (sig, what) in r.violations {
				rep.violation(&sig, &what, json!({"engine":"HIST","model": name, "history": format!("{hist:?}")}));
			}
			crate::report::clear_case();
			let new = seen.lock().unwrap().insert(key);
			local.case_unique(if bad { "violating-transition" } else if new { "new-state" } else { "known-state" });
			// do not expand beyond a violating state: the reference and the implementation already disagree
			if new && !bad {
				next.lock().unwrap().push(hidx);
			}
		});
		let mut nx = next.into_inner().unwrap();
		// deterministic order independent of thread timing
		nx.sort();
		depth += 1;
		per_depth.push(nx.len());
		if nx.is_empty() {
			fixpoint = true;
			break;
		}
		if rep.samples_len() < 6 {
			rep.sample(json!({"model": name, "history": format!("{:?}", nx[nx.len() / 2].iter().map(|k| menu[*k].clone()).collect::<Vec<Op>>())}));
		}
		frontier = nx;
	}
	let states = seen.lock().unwrap().len() as u64;
	let tr = transitions.load(Ordering::Relaxed);
	rep.states.fetch_add(states, Ordering::Relaxed);
	rep.transitions.fetch_add(tr, Ordering::Relaxed);
	rep.traces.fetch_add(tr, Ordering::Relaxed);
	rep.extra_push(
		"hist_models",
		json!({"model": name, "states": states, "transitions": tr, "depth_completed": depth, "fixpoint_reached": fixpoint, "new_states_per_depth": per_depth, "menu_size": menu.len()}),
	);
	// the enumerated space is "all histories up to max_depth modulo the canonical key"; it is complete either way,
	// `fixpoint_reached` says whether it also is the full reachable state space of the abstraction.
	let _: Option<Value> = None;
	HistStats { states, transitions: tr, depth, fixpoint }
}
