//! SCHED: controlled scheduler for real tokio tasks + stateless DFS over choice sequences
//! with a deviation bound (DESIGN §2.1).

use crate::report::{Reporter, hash_of};
use serde_json::{Value, json};
use std::borrow::Cow;
use std::cell::RefCell;
use std::future::Future;
use std::pin::Pin;
use std::sync::Mutex;
use std::sync::atomic::{AtomicBool, AtomicU64, Ordering};
use std::task::{Context, Poll, Waker};
use std::time::{Duration, Instant};

struct Parked {
	id: u64,
	label: Cow<'static, str>,
	waker: Waker,
	released: bool,
}

struct Ctl {
	active: bool,
	parked: Vec<Parked>,
	next_id: u64,
	trace: Vec<String>,
	mask: fn(&str) -> bool,
	panics: Vec<String>,
	/// labels that park only at their first occurrence in an execution (later occurrences pass through)
	once: &'static [&'static str],
	seen_once: Vec<&'static str>,
}

fn mask_all(_: &str) -> bool {
	true
}

thread_local! {
	static CTL: RefCell<Ctl> = RefCell::new(Ctl { active: false, parked: Vec::new(), next_id: 0, trace: Vec::new(), mask: mask_all, panics: Vec::new(), once: &[], seen_once: Vec::new() });
}

/// A scheduling point: parks the calling task until the driver releases it.
pub struct Point {
	label: Option<Cow<'static, str>>,
	state: PState,
}

enum PState {
	Init,
	Parked(u64),
	Done,
}

pub fn point(label: impl Into<Cow<'static, str>>) -> Point {
	Point { label: Some(label.into()), state: PState::Init }
}

impl Future for Point {
	type Output = ();
	fn poll(mut self: Pin<&mut Self>, cx: &mut Context<'_>) -> Poll<()> {
		let this = &mut *self;
		match this.state {
			PState::Done => Poll::Ready(()),
			PState::Init => CTL.with(|c| {
				let mut c = c.borrow_mut();
				let label = this.label.take().unwrap();
				if !c.active || !(c.mask)(&label) {
					this.state = PState::Done;
					return Poll::Ready(());
				}
				if let Some(o) = c.once.iter().find(|o| **o == label.as_ref()).copied() {
					if c.seen_once.contains(&o) {
						this.state = PState::Done;
						return Poll::Ready(());
					}
					c.seen_once.push(o);
				}
				let id = c.next_id;
				c.next_id += 1;
				c.parked.push(Parked { id, label, waker: cx.waker().clone(), released: false });
				this.state = PState::Parked(id);
				Poll::Pending
			}),
			PState::Parked(id) => CTL.with(|c| {
				let mut c = c.borrow_mut();
				match c.parked.iter().position(|p| p.id == id) {
					Some(i) => {
						if c.parked[i].released {
							c.parked.remove(i);
							this.state = PState::Done;
							Poll::Ready(())
						} else {
							c.parked[i].waker = cx.waker().clone();
							Poll::Pending
						}
					}
					None => {
						// controller was reset (execution over): let the task go
						this.state = PState::Done;
						Poll::Ready(())
					}
				}
			}),
		}
	}
}

impl Drop for Point {
	fn drop(&mut self) {
		if let PState::Parked(id) = self.state {
			let _ = CTL.try_with(|c| {
				if let Ok(mut c) = c.try_borrow_mut() {
					if let Some(i) = c.parked.iter().position(|p| p.id == id) {
						c.parked.remove(i);
					}
				}
			});
		}
	}
}

/// Hook installed into `jsonrpsee_core::verif_hooks`.
fn lib_hook(label: &'static str) -> Option<jsonrpsee_core::verif_hooks::PointFuture> {
	let on = CTL.with(|c| {
		let c = c.borrow();
		c.active && (c.mask)(label)
	});
	if on { Some(Box::pin(point(label))) } else { None }
}

pub fn install_hooks() {
	jsonrpsee_core::verif_hooks::install(lib_hook);
	static ONCE: AtomicBool = AtomicBool::new(false);
	if !ONCE.swap(true, Ordering::SeqCst) {
		let prev = std::panic::take_hook();
		let debug = std::env::var("VERIF_DEBUG").is_ok();
		std::panic::set_hook(Box::new(move |info| {
			let msg = format!("{info}");
			let _ = CTL.try_with(|c| {
				if let Ok(mut c) = c.try_borrow_mut() {
					c.panics.push(msg.clone());
				}
			});
			GLOBAL_PANICS.fetch_add(1, Ordering::SeqCst);
			if debug {
				prev(info);
			}
		}));
	}
}

pub static GLOBAL_PANICS: AtomicU64 = AtomicU64::new(0);

/// Append to the execution trace (total order of the single-threaded execution).
pub fn log(msg: impl Into<String>) {
	CTL.with(|c| {
		let mut c = c.borrow_mut();
		if c.active {
			c.trace.push(msg.into());
		}
	});
}

/// Current trace position.
pub fn pos() -> usize {
	CTL.with(|c| c.borrow().trace.len())
}

pub fn take_thread_panics() -> Vec<String> {
	CTL.with(|c| std::mem::take(&mut c.borrow_mut().panics))
}

#[derive(Clone, Debug, PartialEq, Eq)]
pub struct Decision {
	pub n: usize,
	pub chosen: usize,
}

#[derive(Clone, Copy, Debug, PartialEq, Eq)]
pub enum Status {
	/// quiescent, nothing parked (harness decides whether something is still pending)
	Quiescent,
	/// step cap hit
	Overrun,
	/// prefix asked for a choice that does not exist
	Diverged,
}

pub struct Exec<O> {
	pub decisions: Vec<Decision>,
	pub labels: Vec<String>,
	pub trace: Vec<String>,
	pub status: Status,
	pub panics: Vec<String>,
	pub obs: O,
}

/// Verdict of one execution.
pub struct Verdict {
	/// (signature, what) pairs
	pub violations: Vec<(String, String)>,
	/// outcome class (for counting distinct behaviours)
	pub outcome: String,
}

pub trait Scenario: Sync {
	type State;
	fn name(&self) -> String;
	fn config(&self) -> Value;
	/// which library point labels take part in this scenario
	fn mask(&self) -> fn(&str) -> bool;
	/// build the system inside the runtime; spawn the actors
	fn setup(&self) -> Self::State;
	/// judge the finished execution (called inside the runtime)
	fn judge(&self, st: Self::State, trace: &[String], panics: &[String], status: Status) -> Verdict;
	fn max_steps(&self) -> usize {
		400
	}
	/// labels at which a task parks only the first time it gets there in an execution
	fn once_labels(&self) -> &'static [&'static str] {
		&[]
	}
	/// the scenario uses kernel sockets (loopback TCP): the runtime gets an I/O driver
	fn needs_io(&self) -> bool {
		false
	}
	/// kernel readiness is outside the controller: a replay divergence is recorded as inconclusive, not as a machinery error
	fn tolerate_divergence(&self) -> bool {
		false
	}
}

pub fn new_runtime_io(io: bool) -> tokio::runtime::Runtime {
	let mut b = tokio::runtime::Builder::new_current_thread();
	if io {
		b.enable_all();
	} else {
		b.enable_time();
	}
	b.start_paused(true).rng_seed(tokio::runtime::RngSeed::from_bytes(b"verif-seed")).build().expect("runtime")
}

pub fn new_runtime() -> tokio::runtime::Runtime {
	tokio::runtime::Builder::new_current_thread()
		.enable_time()
		.start_paused(true)
		.rng_seed(tokio::runtime::RngSeed::from_bytes(b"verif-seed"))
		.build()
		.expect("runtime")
}

/// Run one execution under the choice prefix; default choice 0 afterwards.
pub fn run_one<S: Scenario>(s: &S, prefix: &[usize], want_labels: bool) -> Exec<Verdict> {
	CTL.with(|c| {
		let mut c = c.borrow_mut();
		c.active = true;
		c.parked.clear();
		c.trace.clear();
		c.panics.clear();
		c.mask = s.mask();
		c.once = s.once_labels();
		c.seen_once.clear();
	});
	let rt = new_runtime_io(s.needs_io());
	let mut decisions = Vec::new();
	let mut labels = Vec::new();
	let max_steps = s.max_steps();
	let (status, verdict, trace, panics) = rt.block_on(async {
		let st = s.setup();
		let mut idle = 0;
		let io_mode = s.needs_io();
		let status = loop {
			tokio::time::sleep(Duration::from_millis(1)).await;
			if io_mode {
				// kernel sockets: readiness is delivered when the runtime polls the I/O driver, which takes a few parks;
				// quiescence = the runtime polled nothing but this driver task for several consecutive rounds
				let m = tokio::runtime::Handle::current().metrics();
				let mut calm = 0;
				let mut rounds = 0;
				while calm < 4 && rounds < 400 {
					let before = m.worker_poll_count(0);
					tokio::time::sleep(Duration::from_millis(1)).await;
					let after = m.worker_poll_count(0);
					if after.saturating_sub(before) <= 1 { calm += 1 } else { calm = 0 }
					rounds += 1;
				}
			}
			let n = CTL.with(|c| c.borrow().parked.iter().filter(|p| !p.released).count());
			if n == 0 {
				idle += 1;
				if idle >= 2 {
					break Status::Quiescent;
				}
				continue;
			}
			idle = 0;
			let i = decisions.len();
			let choice = if i < prefix.len() { prefix[i] } else { 0 };
			if choice >= n {
				break Status::Diverged;
			}
			if decisions.len() >= max_steps {
				break Status::Overrun;
			}
			decisions.push(Decision { n, chosen: choice });
			let waker = CTL.with(|c| {
				let mut c = c.borrow_mut();
				let mut k = 0;
				let mut found = None;
				for (idx, p) in c.parked.iter().enumerate() {
					if p.released {
						continue;
					}
					if k == choice {
						found = Some(idx);
						break;
					}
					k += 1;
				}
				let idx = found.unwrap();
				c.parked[idx].released = true;
				let l = c.parked[idx].label.to_string();
				if want_labels {
					let all: Vec<String> =
						c.parked.iter().filter(|p| !p.released || p.id == c.parked[idx].id).map(|p| p.label.to_string()).collect();
					labels.push(format!("{} of {:?}", l, all));
				}
				c.trace.push(format!(">{l}"));
				c.parked[idx].waker.clone()
			});
			waker.wake();
		};
		// stop intercepting: everything still parked or arriving later passes through
		let (trace, panics) = CTL.with(|c| {
			let mut c = c.borrow_mut();
			c.active = false;
			(std::mem::take(&mut c.trace), c.panics.clone())
		});
		let verdict = s.judge(st, &trace, &panics, status);
		(status, verdict, trace, panics)
	});
	CTL.with(|c| {
		let mut c = c.borrow_mut();
		c.active = false;
	});
	drop(rt);
	CTL.with(|c| {
		let mut c = c.borrow_mut();
		c.parked.clear();
		c.panics.clear();
	});
	// every caller (explorations, history BFS, enumerations) pauses here while too much memory awaits the timer thread
	crate::mem::backpressure();
	Exec { decisions, labels, trace, status, panics, obs: verdict }
}

#[derive(Clone, Debug)]
pub struct ExploreCfg {
	/// deviation bound (None = unbounded)
	pub bound: Option<usize>,
	/// re-execute every n-th schedule and compare (0 = never)
	pub recheck_every: u64,
	/// stop after this many executions (cap, reported)
	pub max_execs: u64,
	pub time_cap: Duration,
	/// a cap hit is not reported (the caller retries with a bound)
	pub soft_cap: bool,
	/// worker threads (0 = as many as the reporter's jobs)
	pub threads: usize,
}

/// Explore without a deviation bound if the whole tree has at most `cap` executions, else with `fallback_bound`.
/// Single-threaded complete exploration (for use inside a parallel sweep over many small scenarios).
pub fn explore_small<S: Scenario>(s: &S, rep: &Reporter, cap: u64, recheck_every: u64) -> ExploreStats {
	explore(s, &ExploreCfg { bound: None, recheck_every, max_execs: cap, time_cap: Duration::from_secs(600), soft_cap: false, threads: 1 }, rep)
}

pub fn explore_auto<S: Scenario>(s: &S, rep: &Reporter, cap: u64, fallback_bound: usize, recheck_every: u64, time_cap: Duration) -> ExploreStats {
	let st = explore(s, &ExploreCfg { bound: None, recheck_every, max_execs: cap, time_cap, soft_cap: true, threads: 0 }, rep);
	if st.exhausted {
		return st;
	}
	explore(s, &ExploreCfg { bound: Some(fallback_bound), recheck_every, max_execs: cap * 20, time_cap: time_cap * 4, soft_cap: false, threads: 0 }, rep)
}

#[derive(Debug, Default, Clone)]
pub struct ExploreStats {
	pub execs: u64,
	pub nodes: u64,
	pub transitions: u64,
	pub max_depth: usize,
	pub outcomes: usize,
	pub exhausted: bool,
	pub rechecked: u64,
	pub divergences: u64,
	pub violations: u64,
}

/// The unexplored alternatives along one executed path, expanded lazily (deepest first) so that the work stack
/// holds one path per executed schedule instead of one vector per alternative.
struct Node {
	chosen: Vec<usize>,
	ns: Vec<usize>,
	lo: usize,
	/// next alternative to hand out: position `i` (counting down to `lo`), alternative `alt` (1..ns[i]); alt 0 = exhausted
	i: usize,
	alt: usize,
}

impl Node {
	fn new(chosen: Vec<usize>, ns: Vec<usize>, lo: usize) -> Option<Node> {
		let mut n = Node { i: chosen.len(), alt: 0, chosen, ns, lo };
		n.advance_pos();
		if n.done() { None } else { Some(n) }
	}
	fn done(&self) -> bool {
		self.alt == 0
	}
	/// move to the next (deeper first) position that has alternatives
	fn advance_pos(&mut self) {
		self.alt = 0;
		while self.i > self.lo {
			self.i -= 1;
			if self.ns[self.i] > 1 {
				self.alt = 1;
				return;
			}
		}
	}
	fn next(&mut self) -> Vec<usize> {
		let mut p: Vec<usize> = self.chosen[..self.i].to_vec();
		p.push(self.alt);
		self.alt += 1;
		if self.alt >= self.ns[self.i] {
			self.advance_pos();
		}
		p
	}
}

struct Work {
	root: Option<Vec<usize>>,
	stack: Vec<Node>,
	inflight: usize,
}

impl Work {
	fn pop(&mut self) -> Option<Vec<usize>> {
		if let Some(r) = self.root.take() {
			return Some(r);
		}
		let top = self.stack.last_mut()?;
		let p = top.next();
		if top.done() {
			self.stack.pop();
		}
		Some(p)
	}
}

/// Exhaustive DFS over choice sequences with at most `bound` non-default choices.
pub fn explore<S: Scenario>(s: &S, cfg: &ExploreCfg, rep: &Reporter) -> ExploreStats {
	install_hooks();
	// `verif replay` of an enumeration case: explorations are not part of it
	if rep.replay_filter.is_some() {
		return ExploreStats { exhausted: true, ..Default::default() };
	}
	// debugging aid: restrict a run to the scenarios whose name contains $VERIF_ONLY (the run is then reported as not exhaustive)
	if let Ok(only) = std::env::var("VERIF_ONLY") {
		if !s.name().contains(&only) {
			rep.not_exhaustive("VERIF_ONLY filter in effect");
			return ExploreStats { exhausted: true, ..Default::default() };
		}
	}
	let work = Mutex::new(Work { root: Some(vec![]), stack: vec![], inflight: 0 });
	let execs = AtomicU64::new(0);
	let nodes = AtomicU64::new(0);
	let transitions = AtomicU64::new(0);
	let rechecked = AtomicU64::new(0);
	let divergences = AtomicU64::new(0);
	let nviol = AtomicU64::new(0);
	let maxdepth = AtomicU64::new(0);
	let capped = AtomicBool::new(false);
	let outcomes: Mutex<std::collections::HashSet<u64>> = Mutex::new(Default::default());
	let start = Instant::now();
	let name = s.name();

	std::thread::scope(|sc| {
		for _ in 0..(if cfg.threads > 0 { cfg.threads } else { rep.jobs.max(1) }) {
			sc.spawn(|| {
				crate::mem::mark_worker();
				loop {
					let item = {
						let mut w = work.lock().unwrap();
						match w.pop() {
							Some(p) => {
								w.inflight += 1;
								Some(p)
							}
							None => {
								if w.inflight == 0 {
									break;
								}
								None
							}
						}
					};
					let Some(prefix) = item else {
						std::thread::yield_now();
						std::thread::sleep(Duration::from_micros(50));
						continue;
					};
					if capped.load(Ordering::Relaxed) {
						work.lock().unwrap().inflight -= 1;
						continue;
					}
					let ex = run_one(s, &prefix, false);
					let n = execs.fetch_add(1, Ordering::Relaxed) + 1;
					if n >= cfg.max_execs || start.elapsed() > cfg.time_cap {
						capped.store(true, Ordering::Relaxed);
					}
					let mut children: Option<Node> = None;
					match ex.status {
						Status::Diverged => {
							divergences.fetch_add(1, Ordering::Relaxed);
							rep.machinery_error(format!("{name}: prefix {:?} diverged (choice out of range)", prefix));
						}
						_ => {
							if ex.status == Status::Overrun {
								rep.machinery_error(format!("{name}: step cap hit at prefix {:?}", prefix));
							}
							let ok_prefix = ex.decisions.len() >= prefix.len()
								&& ex.decisions.iter().zip(prefix.iter()).all(|(d, p)| d.chosen == *p);
							if !ok_prefix {
								divergences.fetch_add(1, Ordering::Relaxed);
								rep.machinery_error(format!("{name}: prefix {:?} not reproduced", prefix));
							}
							let devs = prefix.iter().filter(|c| **c != 0).count();
							nodes.fetch_add((ex.decisions.len() - prefix.len().min(ex.decisions.len())) as u64 + 1, Ordering::Relaxed);
							transitions.fetch_add(ex.decisions.len() as u64, Ordering::Relaxed);
							maxdepth.fetch_max(ex.decisions.len() as u64, Ordering::Relaxed);
							if cfg.bound.map_or(true, |b| devs < b) {
								// deepest alternatives first => DFS order
								children = Node::new(
									ex.decisions.iter().map(|d| d.chosen).collect(),
									ex.decisions.iter().map(|d| d.n).collect(),
									prefix.len().min(ex.decisions.len()),
								);
							}
							let oh = hash_of(&ex.obs.outcome);
							outcomes.lock().unwrap().insert(oh);
							// determinism recheck
							let do_recheck = !ex.obs.violations.is_empty() || (cfg.recheck_every > 0 && n % cfg.recheck_every == 0);
							let mut stable = true;
							if do_recheck {
								let full: Vec<usize> = ex.decisions.iter().map(|d| d.chosen).collect();
								let ex2 = run_one(s, &full, false);
								rechecked.fetch_add(1, Ordering::Relaxed);
								if (ex2.decisions != ex.decisions || ex2.trace != ex.trace || ex2.obs.outcome != ex.obs.outcome) && s.tolerate_divergence() {
									stable = false;
									divergences.fetch_add(1, Ordering::Relaxed);
									rep.extra_add("inconclusive_schedules_kernel_timing", 1);
								} else if ex2.decisions != ex.decisions || ex2.trace != ex.trace || ex2.obs.outcome != ex.obs.outcome {
									stable = false;
									divergences.fetch_add(1, Ordering::Relaxed);
									rep.machinery_error(format!(
										"{name}: replay divergence for choices {:?}: trace1={:?} trace2={:?}",
										full, ex.trace, ex2.trace
									));
								}
							}
							if stable && !ex.obs.violations.is_empty() {
								nviol.fetch_add(1, Ordering::Relaxed);
								let full: Vec<usize> = ex.decisions.iter().map(|d| d.chosen).collect();
								for (sig, what) in &ex.obs.violations {
									rep.violation(
										sig,
										what,
										json!({"engine":"SCHED","scenario": name, "config": s.config(), "choices": full, "trace": ex.trace, "panics": ex.panics, "what": what}),
									);
								}
							}
							if rep.samples_len() < 3 && (n == 1 || n % 97 == 0) {
								let full: Vec<usize> = ex.decisions.iter().map(|d| d.chosen).collect();
								rep.sample(json!({"scenario": name, "choices": full, "trace": ex.trace, "outcome": ex.obs.outcome}));
							}
						}
					}
					let mut w = work.lock().unwrap();
					if !capped.load(Ordering::Relaxed) {
						w.stack.extend(children);
					} else {
						w.stack.clear();
					}
					w.inflight -= 1;
				}
				crate::mem::flush();
			});
		}
	});

	let st = ExploreStats {
		execs: execs.load(Ordering::Relaxed),
		nodes: nodes.load(Ordering::Relaxed),
		transitions: transitions.load(Ordering::Relaxed),
		max_depth: maxdepth.load(Ordering::Relaxed) as usize,
		outcomes: outcomes.lock().unwrap().len(),
		exhausted: !capped.load(Ordering::Relaxed),
		rechecked: rechecked.load(Ordering::Relaxed),
		divergences: divergences.load(Ordering::Relaxed),
		violations: nviol.load(Ordering::Relaxed),
	};
	if !st.exhausted && cfg.soft_cap {
		// the caller falls back to a bounded exploration; executions of this attempt are still counted
		rep.traces.fetch_add(st.execs, Ordering::Relaxed);
		rep.add_evals(st.execs, 0, "capped-unbounded-attempt");
		return st;
	}
	rep.states.fetch_add(st.nodes, Ordering::Relaxed);
	rep.transitions.fetch_add(st.transitions, Ordering::Relaxed);
	rep.traces.fetch_add(st.execs, Ordering::Relaxed);
	// distinct_nontrivial for SCHED = executions with pairwise distinct observable outcomes
	rep.add_evals(st.execs, st.outcomes as u64, &format!("{}", name.split(':').next().unwrap_or("sched")));
	if !st.exhausted {
		rep.not_exhaustive(&format!("{name}: capped after {} executions (bound {:?})", st.execs, cfg.bound));
	}
	rep.extra_add("schedules_executed_twice_for_determinism", st.rechecked);
	rep.extra_add("replay_divergences", st.divergences);
	rep.extra_push(
		"scenarios",
		json!({"scenario": name, "config": s.config(), "bound": cfg.bound, "executions": st.execs, "tree_nodes": st.nodes,
			"releases": st.transitions, "max_depth": st.max_depth, "distinct_outcomes": st.outcomes, "exhausted_within_bound": st.exhausted,
			"rechecked": st.rechecked, "divergences": st.divergences, "violating_executions": st.violations}),
	);
	st
}

/// Replay a recorded choice sequence, print trace with labels.
pub fn replay<S: Scenario>(s: &S, choices: &[usize]) -> Exec<Verdict> {
	install_hooks();
	run_one(s, choices, true)
}

/// Object-safe view used by `verif replay`.
pub trait DynScenario {
	fn dyn_name(&self) -> String;
	fn dyn_replay(&self, choices: &[usize]) -> (Vec<String>, Vec<String>, Vec<(String, String)>, String, Vec<usize>);
}

impl<S: Scenario> DynScenario for S {
	fn dyn_name(&self) -> String {
		self.name()
	}
	fn dyn_replay(&self, choices: &[usize]) -> (Vec<String>, Vec<String>, Vec<(String, String)>, String, Vec<usize>) {
		let ex = replay(self, choices);
		let ns = ex.decisions.iter().map(|d| d.n).collect();
		(ex.trace, ex.labels, ex.obs.violations, ex.obs.outcome, ns)
	}
}
