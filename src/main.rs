//! `verif` — model-checking harness for jsonrpsee (see /verif/DESIGN.md).
#![allow(clippy::all)]
#![allow(dead_code)]

mod clim;
mod hist;
mod mem;
mod par;
mod props;
mod refmodel;
mod report;
mod sched;
mod smem;
mod srv;

use report::{Reporter, Tier};
use std::path::PathBuf;

pub fn verif_root() -> PathBuf {
	std::env::var("VERIF_ROOT").map(PathBuf::from).unwrap_or_else(|_| PathBuf::from("/verif"))
}

fn usage() -> ! {
	eprintln!("usage: verif check <Cxx> [--tier quick|thorough] [--jobs N]\n       verif replay <file>\n       verif list");
	std::process::exit(2);
}

#[global_allocator]
static ALLOC: mem::Counting = mem::Counting;

fn main() {
	let args: Vec<String> = std::env::args().skip(1).collect();
	if args.is_empty() {
		usage();
	}
	match args[0].as_str() {
		"list" => {
			for (id, _, level) in props::REGISTRY {
				println!("{id} {level}");
			}
		}
		"check" => {
			if args.len() < 2 {
				usage();
			}
			let id = args[1].as_str();
			let mut tier = match std::env::var("VERIF_TIER").ok().as_deref() {
				Some("thorough") => Tier::Thorough,
				_ => Tier::Quick,
			};
			let mut jobs = std::thread::available_parallelism().map(|n| n.get()).unwrap_or(8).min(16);
			let mut i = 2;
			while i < args.len() {
				match args[i].as_str() {
					"--tier" => {
						tier = match args.get(i + 1).map(|s| s.as_str()) {
							Some("quick") => Tier::Quick,
							Some("thorough") => Tier::Thorough,
							_ => usage(),
						};
						i += 2;
					}
					"--jobs" => {
						jobs = args.get(i + 1).and_then(|s| s.parse().ok()).unwrap_or_else(|| usage());
						i += 2;
					}
					_ => usage(),
				}
			}
			let seed: u64 = std::env::var("VERIF_SEED").ok().and_then(|s| s.parse().ok()).unwrap_or(0);
			let Some((pid, f, level)) = props::REGISTRY.iter().find(|(p, _, _)| *p == id) else {
				eprintln!("unknown property {id}");
				std::process::exit(2);
			};
			sched::install_hooks();
			let rep = Reporter::new(pid, tier, seed, level, jobs);
			let res = std::panic::catch_unwind(std::panic::AssertUnwindSafe(|| f(&rep)));
			if let Err(e) = res {
				let msg = e.downcast_ref::<String>().cloned().or_else(|| e.downcast_ref::<&str>().map(|s| s.to_string())).unwrap_or_default();
				rep.machinery_error(format!("check panicked: {msg}"));
			}
			let code = rep.finish();
			std::process::exit(code);
		}
		"replay" => {
			if args.len() < 2 {
				usage();
			}
			let txt = std::fs::read_to_string(&args[1]).unwrap_or_else(|e| {
				eprintln!("cannot read {}: {e}", args[1]);
				std::process::exit(2)
			});
			let v: serde_json::Value = serde_json::from_str(&txt).expect("replay file is JSON");
			sched::install_hooks();
			let code = props::replay(&v);
			std::process::exit(code);
		}
		_ => usage(),
	}
}
