//! Server-side harness assemblies (DESIGN §4): SRV-HTTP (tower service called directly with an explicit
//! frame-sequence body) and the standard method module with an invocation log.

use bytes::Bytes;
use http_body::Frame;
use http_body_util::BodyExt;
use jsonrpsee_core::server::{Methods, RpcModule, SubscriptionMessage};
use jsonrpsee_server::{
	BatchRequestConfig, HttpRequest, HttpResponse, Server, ServerConfig, ServerConfigBuilder, ServerHandle, StopHandle, stop_channel,
};
use jsonrpsee_types::ErrorObjectOwned;
use serde_json::{Value, json};
use std::collections::VecDeque;
use std::pin::Pin;
use std::sync::{Arc, Mutex};
use std::task::{Context, Poll};
use tower::Service;

/// Request body yielding an explicit sequence of data frames.
#[derive(Debug)]
pub struct FramesBody {
	frames: VecDeque<Bytes>,
	/// what size_hint reports (None = unknown)
	exact: Option<u64>,
}

impl FramesBody {
	pub fn new(frames: Vec<Vec<u8>>) -> Self {
		let total: usize = frames.iter().map(|f| f.len()).sum();
		FramesBody { frames: frames.into_iter().map(Bytes::from).collect(), exact: Some(total as u64) }
	}
	pub fn single(b: impl Into<Vec<u8>>) -> Self {
		Self::new(vec![b.into()])
	}
	/// the same frames, but the body does not tell its length in advance (a client then cannot add a Content-Length)
	pub fn unsized_frames(frames: Vec<Vec<u8>>) -> Self {
		FramesBody { frames: frames.into_iter().map(Bytes::from).collect(), exact: None }
	}
}

impl http_body::Body for FramesBody {
	type Data = Bytes;
	type Error = std::convert::Infallible;
	fn poll_frame(mut self: Pin<&mut Self>, _cx: &mut Context<'_>) -> Poll<Option<Result<Frame<Bytes>, Self::Error>>> {
		Poll::Ready(self.frames.pop_front().map(|b| Ok(Frame::data(b))))
	}
	fn is_end_stream(&self) -> bool {
		self.frames.is_empty()
	}
	fn size_hint(&self) -> http_body::SizeHint {
		match self.exact {
			Some(n) => {
				let rem: u64 = self.frames.iter().map(|f| f.len() as u64).sum();
				let _ = n;
				http_body::SizeHint::with_exact(rem)
			}
			None => http_body::SizeHint::default(),
		}
	}
}

pub type InvLog = Arc<Mutex<Vec<String>>>;

/// What the echo handlers return for given params text.
pub fn echo_result(method: &str, params: Option<&Value>) -> Value {
	json!({"m": method, "p": params.cloned().unwrap_or(Value::Null)})
}

/// The standard module: four handler kinds + add + fail + a subscription pair.
pub fn std_module(log: InvLog) -> Methods {
	let mut m = RpcModule::new(log);
	m.register_method("sync_echo", |p, log, _| {
		log.lock().unwrap().push("sync_echo".into());
		let v: Value = p.parse()?;
		Ok::<_, ErrorObjectOwned>(echo_result("sync_echo", Some(&v)))
	})
	.unwrap();
	m.register_async_method("async_echo", |p, log, _| async move {
		log.lock().unwrap().push("async_echo".into());
		let v: Value = p.parse()?;
		Ok::<_, ErrorObjectOwned>(echo_result("async_echo", Some(&v)))
	})
	.unwrap();
	m.register_blocking_method("blocking_echo", |p, log, _| {
		log.lock().unwrap().push("blocking_echo".into());
		let v: Value = p.parse()?;
		Ok::<_, ErrorObjectOwned>(echo_result("blocking_echo", Some(&v)))
	})
	.unwrap();
	m.register_blocking_method("blocking_panic", |_p, log, _| -> Result<Value, ErrorObjectOwned> {
		log.lock().unwrap().push("blocking_panic".into());
		panic!("blocking handler panics (intended by the harness)");
	})
	.unwrap();
	m.register_method("add", |p, log, _| {
		log.lock().unwrap().push("add".into());
		let mut s = p.sequence();
		let a: u64 = s.next()?;
		let b: u64 = s.next()?;
		Ok::<_, ErrorObjectOwned>(a.wrapping_add(b))
	})
	.unwrap();
	m.register_method("fail", |_p, log, _| {
		log.lock().unwrap().push("fail".into());
		Err::<u8, _>(ErrorObjectOwned::owned(1234, "custom failure", Some(json!({"k": [1, 2]}))))
	})
	.unwrap();
	// the same, registered as a blocking method
	m.register_blocking_method("blob_blocking", |p, log, _| {
		log.lock().unwrap().push("blob_blocking".into());
		let (kind, n): (u8, usize) = p.parse()?;
		Ok::<_, ErrorObjectOwned>(blob(kind, n))
	})
	.unwrap();
	// answers from the request extensions the server attaches to every call (the connection id)
	m.register_method("whoami", |_, log, ext| {
		log.lock().unwrap().push("whoami".into());
		Ok::<_, ErrorObjectOwned>(json!({"has_connection_id": ext.get::<jsonrpsee_server::ConnectionId>().is_some()}))
	})
	.unwrap();
	// result of controllable size and content class: params [kind, n]
	m.register_method("blob", |p, log, _| {
		log.lock().unwrap().push("blob".into());
		let (kind, n): (u8, usize) = p.parse()?;
		Ok::<_, ErrorObjectOwned>(blob(kind, n))
	})
	.unwrap();
	m.register_async_method("blob_err", |p, log, _| async move {
		log.lock().unwrap().push("blob_err".into());
		let (kind, n): (u8, usize) = p.parse()?;
		Err::<u8, _>(ErrorObjectOwned::owned(77, "e", Some(blob(kind, n))))
	})
	.unwrap();
	m.register_subscription("sub", "n", "unsub", |p, pending, log, _| async move {
		log.lock().unwrap().push("sub".into());
		let count: u64 = p.one().unwrap_or(0);
		let sink = pending.accept().await?;
		for i in 0..count {
			let msg = serde_json::value::to_raw_value(&i).unwrap();
			if sink.send(SubscriptionMessage::from(msg)).await.is_err() {
				break;
			}
		}
		sink.closed().await;
		Ok(())
	})
	.unwrap();
	m.into()
}

/// n units of a content class: 0 ASCII, 1 needs JSON escaping, 2 two-byte UTF-8, 3 four-byte UTF-8, 4 control char (\u00XX escape)
pub fn blob(kind: u8, n: usize) -> String {
	let unit = match kind {
		0 => "a",
		1 => "\"",
		2 => "é",
		3 => "\u{1F600}",
		_ => "\u{1}",
	};
	unit.repeat(n)
}

pub fn cfg_builder() -> ServerConfigBuilder {
	ServerConfig::builder()
}

pub struct HttpSvc {
	pub svc: jsonrpsee_server::TowerService<tower::layer::util::Identity, tower::layer::util::Identity>,
	pub stop: StopHandle,
	pub handle: ServerHandle,
	pub log: InvLog,
}

/// Build the TowerService that `Server` itself uses per connection.
pub fn http_service(cfg: ServerConfig) -> HttpSvc {
	let log: InvLog = Arc::new(Mutex::new(Vec::new()));
	let (stop, handle) = stop_channel();
	let svc = Server::builder().set_config(cfg).to_service_builder().build(std_module(log.clone()), stop.clone());
	HttpSvc { svc, stop, handle, log }
}

#[derive(Debug, Clone, PartialEq)]
pub struct HttpOut {
	pub status: u16,
	pub content_type: Option<String>,
	pub body: Vec<u8>,
}

pub fn post(frames: Vec<Vec<u8>>, content_length: Option<String>) -> HttpRequest<FramesBody> {
	let mut b = http::Request::builder().method("POST").uri("/").header("content-type", "application/json");
	if let Some(cl) = content_length {
		b = b.header("content-length", cl);
	}
	b.body(FramesBody::new(frames)).unwrap()
}

pub async fn http_call<S>(svc: &mut S, req: HttpRequest<FramesBody>) -> Result<HttpOut, String>
where
	S: Service<HttpRequest<FramesBody>, Response = HttpResponse>,
	S::Error: std::fmt::Debug,
{
	let resp = svc.call(req).await.map_err(|e| format!("{e:?}"))?;
	let status = resp.status().as_u16();
	let content_type = resp.headers().get("content-type").and_then(|v| v.to_str().ok()).map(|s| s.to_string());
	let body = resp.into_body().collect().await.map_err(|e| format!("{e:?}"))?.to_bytes().to_vec();
	Ok(HttpOut { status, content_type, body })
}

pub fn rt() -> tokio::runtime::Runtime {
	tokio::runtime::Builder::new_current_thread().enable_all().max_blocking_threads(4).build().unwrap()
}

pub fn batch_cfg_name(c: &BatchRequestConfig) -> String {
	format!("{c:?}")
}

// ---------------------------------------------------------------------------------------------
// SRV-MEM: the same TowerService served over an in-memory duplex by `serve_with_graceful_shutdown`,
// with a raw soketto client as the peer.

use tokio_util::compat::{Compat, TokioAsyncReadCompatExt};

pub type StdSvc = jsonrpsee_server::TowerService<tower::layer::util::Identity, tower::layer::util::Identity>;
pub type StdSvcBuilder = jsonrpsee_server::TowerServiceBuilder<tower::layer::util::Identity, tower::layer::util::Identity>;

pub struct WsConn {
	pub sender: soketto::Sender<Compat<tokio::io::DuplexStream>>,
	pub receiver: soketto::Receiver<Compat<tokio::io::DuplexStream>>,
	pub serve: tokio::task::JoinHandle<Result<(), String>>,
}

/// Serve `svc` on one half of a duplex and perform the WebSocket handshake on the other.
pub async fn ws_connect<S, B>(svc: S, stop: StopHandle) -> Result<WsConn, String>
where
	S: tower::Service<http::Request<hyper::body::Incoming>, Response = http::Response<B>> + Clone + Send + 'static,
	S::Future: Send,
	S::Response: Send,
	S::Error: Into<jsonrpsee_core::BoxError>,
	B: http_body::Body<Data = Bytes> + Send + 'static,
	B::Error: Into<jsonrpsee_core::BoxError>,
{
	let (a, b) = tokio::io::duplex(1 << 20);
	let serve = tokio::spawn(async move {
		jsonrpsee_server::serve_with_graceful_shutdown(a, svc, stop.shutdown()).await.map_err(|e| e.to_string())
	});
	let mut client = soketto::handshake::Client::new(b.compat(), "localhost", "/");
	match client.handshake().await.map_err(|e| format!("handshake: {e}"))? {
		soketto::handshake::ServerResponse::Accepted { .. } => {}
		other => return Err(format!("handshake refused: {other:?}")),
	}
	let mut builder = client.into_builder();
	builder.set_max_message_size(64 << 20);
	let (sender, receiver) = builder.finish();
	Ok(WsConn { sender, receiver, serve })
}

impl WsConn {
	/// Send one message: as a text frame when the bytes are UTF-8, else as a binary frame.
	pub async fn send(&mut self, msg: &[u8]) -> Result<(), String> {
		match std::str::from_utf8(msg) {
			Ok(s) => self.sender.send_text(s).await.map_err(|e| e.to_string())?,
			Err(_) => self.sender.send_binary(msg).await.map_err(|e| e.to_string())?,
		}
		self.sender.flush().await.map_err(|e| e.to_string())
	}

	/// Next data frame; None when the connection is closed.
	pub async fn recv(&mut self) -> Option<Vec<u8>> {
		let mut buf = Vec::new();
		loop {
			buf.clear();
			match self.receiver.receive(&mut buf).await {
				Ok(soketto::Incoming::Data(_)) => return Some(buf),
				Ok(soketto::Incoming::Pong(_)) => continue,
				Ok(soketto::Incoming::Closed(_)) => return None,
				Err(_) => return None,
			}
		}
	}
}

pub struct WsServer {
	pub builder: StdSvcBuilder,
	pub stop: StopHandle,
	pub handle: ServerHandle,
	pub log: InvLog,
	pub methods: Methods,
}

pub fn ws_server(cfg: ServerConfig) -> WsServer {
	let log: InvLog = Arc::new(Mutex::new(Vec::new()));
	let (stop, handle) = stop_channel();
	let builder = Server::builder().set_config(cfg).to_service_builder();
	let methods = std_module(log.clone());
	WsServer { builder, stop, handle, log, methods }
}

impl WsServer {
	pub fn svc(&self) -> StdSvc {
		self.builder.clone().build(self.methods.clone(), self.stop.clone())
	}
}

/// Subscription ids that are strings of a fixed width.
#[derive(Debug)]
pub struct WideIds(pub usize);
impl jsonrpsee_server::IdProvider for WideIds {
	fn next_id(&self) -> jsonrpsee_types::SubscriptionId<'static> {
		jsonrpsee_types::SubscriptionId::Str("s".repeat(self.0).into())
	}
}

/// Distinct string subscription ids of at least the given width (`sss…s<n>`).
#[derive(Debug)]
pub struct WideCounterIds(pub usize, pub std::sync::atomic::AtomicU64);
impl jsonrpsee_server::IdProvider for WideCounterIds {
	fn next_id(&self) -> jsonrpsee_types::SubscriptionId<'static> {
		let n = self.1.fetch_add(1, std::sync::atomic::Ordering::SeqCst);
		jsonrpsee_types::SubscriptionId::Str(format!("{}{n}", "s".repeat(self.0)).into())
	}
}

/// Deterministic subscription ids for harnesses.
#[derive(Debug)]
pub struct CounterIds(pub std::sync::atomic::AtomicU64);
impl jsonrpsee_server::IdProvider for CounterIds {
	fn next_id(&self) -> jsonrpsee_types::SubscriptionId<'static> {
		jsonrpsee_types::SubscriptionId::Num(self.0.fetch_add(1, std::sync::atomic::Ordering::SeqCst))
	}
}

// ---------------------------------------------------------------------------------------------
// HTTP/2 (prior knowledge) client connection to a `Server::start` listener over loopback TCP: hyper's h2 path on both
// sides (pseudo-headers instead of request line and Host, DATA frames instead of Content-Length / chunked framing).

pub struct H2Conn {
	sender: hyper::client::conn::http2::SendRequest<FramesBody>,
	driver: tokio::task::JoinHandle<()>,
}

pub async fn h2_connect(addr: std::net::SocketAddr) -> Result<H2Conn, String> {
	let io = tokio::net::TcpStream::connect(addr).await.map_err(|e| format!("connect: {e}"))?;
	// HEADERS and DATA go out as separate writes: without this every request waits for a delayed ACK
	let _ = io.set_nodelay(true);
	let (sender, conn) = hyper::client::conn::http2::handshake(hyper_util::rt::TokioExecutor::new(), hyper_util::rt::TokioIo::new(io)).await.map_err(|e| format!("h2 handshake: {e}"))?;
	let driver = tokio::spawn(async move {
		let _ = conn.await;
	});
	Ok(H2Conn { sender, driver })
}

impl H2Conn {
	/// One request on a stream of its own. The URI must be absolute (it becomes :scheme / :authority / :path).
	pub async fn request(&mut self, req: HttpRequest<FramesBody>) -> Result<HttpOut, String> {
		self.sender.ready().await.map_err(|e| format!("h2 not ready: {e}"))?;
		let resp = self.sender.send_request(req).await.map_err(|e| format!("h2 request: {e:?}"))?;
		let status = resp.status().as_u16();
		let content_type = resp.headers().get("content-type").and_then(|v| v.to_str().ok()).map(|s| s.to_string());
		// a stream reset after the response head (the server stopped reading an oversized body) still leaves the status
		let body = match resp.into_body().collect().await {
			Ok(b) => b.to_bytes().to_vec(),
			Err(_) => Vec::new(),
		};
		Ok(HttpOut { status, content_type, body })
	}
}

impl Drop for H2Conn {
	fn drop(&mut self) {
		self.driver.abort();
	}
}
