//! Allocation accounting and back-pressure.
//!
//! The client's request timeout is a `futures_timer::Delay`: every call registers with that crate's global timer and its
//! removal is queued for the crate's single helper thread. Sixteen exploration threads creating and dropping clients at
//! full speed outrun that thread; the queue (each entry keeping a waker, hence a task cell and a whole runtime alive)
//! grew to tens of GB in a thorough run. The global allocator therefore counts live bytes (per-thread deltas flushed in
//! 1 MB steps) and exploration workers pause while the total is above a limit, which lets the helper thread catch up.

use std::alloc::{GlobalAlloc, Layout, System};
use std::cell::Cell;
use std::sync::atomic::{AtomicI64, AtomicU64, Ordering};

pub struct Counting;

static LIVE: AtomicI64 = AtomicI64::new(0);
static PEAK: AtomicI64 = AtomicI64::new(0);
static PAUSES: AtomicU64 = AtomicU64::new(0);
/// live bytes when the current exploration leg started: what the check itself holds (its work list) is not backlog
static BASELINE: AtomicI64 = AtomicI64::new(0);
const STEP: i64 = 1 << 20;
const HIGH: i64 = 2 << 30;
const LOW: i64 = 768 << 20;

thread_local! {
	static PENDING: Cell<i64> = const { Cell::new(0) };
	/// set in the engines' worker threads: a leg started from inside a worker (nested exploration) leaves the baseline alone
	static IS_WORKER: Cell<bool> = const { Cell::new(false) };
}

pub fn mark_worker() {
	let _ = IS_WORKER.try_with(|w| w.set(true));
}

#[inline]
fn note(delta: i64) {
	let _ = PENDING.try_with(|p| {
		let v = p.get() + delta;
		if v > STEP || v < -STEP {
			let now = LIVE.fetch_add(v, Ordering::Relaxed) + v;
			PEAK.fetch_max(now, Ordering::Relaxed);
			p.set(0);
		} else {
			p.set(v);
		}
	});
}

unsafe impl GlobalAlloc for Counting {
	unsafe fn alloc(&self, l: Layout) -> *mut u8 {
		note(l.size() as i64);
		unsafe { System.alloc(l) }
	}
	unsafe fn alloc_zeroed(&self, l: Layout) -> *mut u8 {
		note(l.size() as i64);
		unsafe { System.alloc_zeroed(l) }
	}
	unsafe fn dealloc(&self, p: *mut u8, l: Layout) {
		note(-(l.size() as i64));
		unsafe { System.dealloc(p, l) }
	}
	unsafe fn realloc(&self, p: *mut u8, l: Layout, new_size: usize) -> *mut u8 {
		note(new_size as i64 - l.size() as i64);
		unsafe { System.realloc(p, l, new_size) }
	}
}

/// Publish this thread's pending delta (called when a worker thread ends).
pub fn flush() {
	let _ = PENDING.try_with(|p| {
		let v = p.replace(0);
		if v != 0 {
			LIVE.fetch_add(v, Ordering::Relaxed);
		}
	});
}

/// Called by the enumeration engine (not by the schedule explorer, whose scenarios follow each other by the hundred and
/// would ratchet the baseline up with the very backlog the back-pressure exists for) before the workers of a leg start: the bytes live at that moment (work lists, tables built by
/// the check) are the leg's baseline, and back-pressure looks at the growth above it only. Without this, a check whose
/// own work list exceeds `HIGH` would pause every worker for the full 20 s on every chunk.
pub fn leg_starts() {
	if IS_WORKER.try_with(|w| w.get()).unwrap_or(true) {
		return;
	}
	flush();
	// whatever the timer helper thread still has to release from the previous leg is backlog, not baseline: wait until
	// the live total has stopped falling (it drains within a fraction of a second once no worker runs)
	let t0 = std::time::Instant::now();
	loop {
		let a = LIVE.load(Ordering::Relaxed);
		std::thread::sleep(std::time::Duration::from_millis(40));
		let b = LIVE.load(Ordering::Relaxed);
		if a - b < STEP || t0.elapsed() > std::time::Duration::from_secs(10) {
			break;
		}
	}
	BASELINE.store(LIVE.load(Ordering::Relaxed).max(0), Ordering::Relaxed);
}

/// Pause the calling worker while the process holds more than `HIGH` live bytes above the leg's baseline (at most 20 s).
pub fn backpressure() {
	let base = BASELINE.load(Ordering::Relaxed);
	if LIVE.load(Ordering::Relaxed) - base < HIGH {
		return;
	}
	flush();
	PAUSES.fetch_add(1, Ordering::Relaxed);
	let t0 = std::time::Instant::now();
	while LIVE.load(Ordering::Relaxed) - base > LOW && t0.elapsed() < std::time::Duration::from_secs(20) {
		std::thread::sleep(std::time::Duration::from_millis(2));
	}
}

pub fn stats() -> (i64, i64, u64) {
	(LIVE.load(Ordering::Relaxed), PEAK.load(Ordering::Relaxed), PAUSES.load(Ordering::Relaxed))
}
