//! Evidence, violations, known findings, exit codes (DESIGN §2.4).

use serde_json::{Map, Value, json};
use std::collections::{BTreeMap, HashMap, HashSet};
use std::hash::{Hash, Hasher};
use std::sync::Mutex;
use std::sync::atomic::{AtomicU64, Ordering};
use std::time::Instant;

#[derive(Clone, Copy, Debug, PartialEq, Eq)]
pub enum Tier {
	Quick,
	Thorough,
}

impl Tier {
	pub fn name(self) -> &'static str {
		match self {
			Tier::Quick => "quick",
			Tier::Thorough => "thorough",
		}
	}
	pub fn thorough(self) -> bool {
		self == Tier::Thorough
	}
}

pub fn hash_of<T: Hash + ?Sized>(t: &T) -> u64 {
	let mut h = std::collections::hash_map::DefaultHasher::new();
	t.hash(&mut h);
	h.finish()
}

/// Per-worker accumulator, merged into the reporter when the worker is done.
#[derive(Default)]
pub struct Local {
	pub evals: u64,
	pub classes: HashMap<String, u64>,
	pub distinct: HashSet<u64>,
	/// cases that are distinct by construction of the enumeration (deduplicated up front)
	pub unique: u64,
}

impl Local {
	/// Record a case that the enumeration generates exactly once (inputs deduplicated by the generator).
	pub fn case_unique(&mut self, class: &str) {
		self.evals += 1;
		self.unique += 1;
		match self.classes.get_mut(class) {
			Some(c) => *c += 1,
			None => {
				self.classes.insert(class.to_string(), 1);
			}
		}
	}

	/// Record one evaluated case: `key` identifies the case (for distinct counting),
	/// `nontrivial` says whether it counts as non-trivial, `class` is its outcome class.
	pub fn case(&mut self, key: u64, nontrivial: bool, class: &str) {
		self.evals += 1;
		if nontrivial {
			self.distinct.insert(key);
		}
		match self.classes.get_mut(class) {
			Some(c) => *c += 1,
			None => {
				self.classes.insert(class.to_string(), 1);
			}
		}
	}
}

struct Viol {
	count: u64,
	what: String,
	replay: Value,
	size: usize,
}

thread_local! {
	/// (leg, index) of the enumeration case being evaluated on this thread (set by par_for / bfs)
	static CASE: std::cell::Cell<(usize, usize)> = const { std::cell::Cell::new((usize::MAX, 0)) };
	/// menu indices of the history being evaluated (set by bfs)
	static CASE_HIST: std::cell::RefCell<Option<(usize, Vec<usize>)>> = const { std::cell::RefCell::new(None) };
}

pub fn set_case(leg: usize, index: usize) {
	CASE.with(|c| c.set((leg, index)));
}
pub fn clear_case() {
	CASE.with(|c| c.set((usize::MAX, 0)));
	CASE_HIST.with(|c| *c.borrow_mut() = None);
}
pub fn set_case_hist(leg: usize, hist: &[usize]) {
	CASE_HIST.with(|c| *c.borrow_mut() = Some((leg, hist.to_vec())));
}

pub struct Reporter {
	pub prop: &'static str,
	pub tier: Tier,
	pub seed: u64,
	pub level: &'static str,
	pub jobs: usize,
	start: Instant,
	evals: AtomicU64,
	unique: AtomicU64,
	pub states: AtomicU64,
	pub transitions: AtomicU64,
	pub traces: AtomicU64,
	classes: Mutex<BTreeMap<String, u64>>,
	distinct: Mutex<HashSet<u64>>,
	samples: Mutex<Vec<Value>>,
	viols: Mutex<BTreeMap<String, Viol>>,
	extra: Mutex<Map<String, Value>>,
	rule: Mutex<String>,
	assumptions: Mutex<Vec<String>>,
	exhaustive: Mutex<bool>,
	machinery_errors: Mutex<Vec<String>>,
	/// enumeration legs (par_for / bfs invocations) are numbered in program order
	legs: std::sync::atomic::AtomicUsize,
	/// `verif replay`: evaluate only this case — (leg, index) or (leg, history as menu indices)
	pub replay_filter: Option<(usize, Vec<usize>)>,
}

impl Reporter {
	pub fn next_leg(&self) -> usize {
		self.legs.fetch_add(1, Ordering::SeqCst)
	}

	pub fn new(prop: &'static str, tier: Tier, seed: u64, level: &'static str, jobs: usize) -> Self {
		Reporter {
			prop,
			tier,
			seed,
			level,
			jobs,
			start: Instant::now(),
			evals: AtomicU64::new(0),
			unique: AtomicU64::new(0),
			states: AtomicU64::new(0),
			transitions: AtomicU64::new(0),
			traces: AtomicU64::new(0),
			classes: Mutex::new(BTreeMap::new()),
			distinct: Mutex::new(HashSet::new()),
			samples: Mutex::new(Vec::new()),
			viols: Mutex::new(BTreeMap::new()),
			extra: Mutex::new(Map::new()),
			rule: Mutex::new(String::new()),
			assumptions: Mutex::new(Vec::new()),
			exhaustive: Mutex::new(true),
			machinery_errors: Mutex::new(Vec::new()),
			legs: std::sync::atomic::AtomicUsize::new(0),
			replay_filter: None,
		}
	}

	pub fn elapsed(&self) -> f64 {
		self.start.elapsed().as_secs_f64()
	}

	pub fn merge(&self, l: Local) {
		self.evals.fetch_add(l.evals, Ordering::Relaxed);
		self.unique.fetch_add(l.unique, Ordering::Relaxed);
		let mut c = self.classes.lock().unwrap();
		for (k, v) in l.classes {
			*c.entry(k).or_insert(0) += v;
		}
		drop(c);
		self.distinct.lock().unwrap().extend(l.distinct);
	}

	/// Count executions of an exploration: `n` evaluations of which `distinct` had distinct observable outcomes.
	pub fn add_evals(&self, n: u64, distinct: u64, class: &str) {
		self.evals.fetch_add(n, Ordering::Relaxed);
		self.unique.fetch_add(distinct, Ordering::Relaxed);
		*self.classes.lock().unwrap().entry(class.to_string()).or_insert(0) += n;
	}

	pub fn set_rule(&self, r: &str) {
		let mut g = self.rule.lock().unwrap();
		if !g.is_empty() {
			g.push_str(" | ");
		}
		g.push_str(r);
	}

	pub fn assume(&self, a: &str) {
		self.assumptions.lock().unwrap().push(a.to_string());
	}

	pub fn not_exhaustive(&self, why: &str) {
		*self.exhaustive.lock().unwrap() = false;
		self.extra_push("caps_hit", json!(why));
	}

	pub fn extra(&self, k: &str, v: Value) {
		self.extra.lock().unwrap().insert(k.to_string(), v);
	}

	pub fn extra_push(&self, k: &str, v: Value) {
		let mut e = self.extra.lock().unwrap();
		let entry = e.entry(k.to_string()).or_insert_with(|| Value::Array(vec![]));
		if let Value::Array(a) = entry {
			a.push(v);
		}
	}

	pub fn extra_add(&self, k: &str, n: u64) {
		let mut e = self.extra.lock().unwrap();
		let entry = e.entry(k.to_string()).or_insert_with(|| json!(0u64));
		let cur = entry.as_u64().unwrap_or(0);
		*entry = json!(cur + n);
	}

	pub fn sample(&self, v: Value) {
		let mut s = self.samples.lock().unwrap();
		if s.len() < 12 {
			s.push(v);
		}
	}

	pub fn samples_len(&self) -> usize {
		self.samples.lock().unwrap().len()
	}

	/// Report a violation.  `sig` identifies the failing clause and the distinguishing
	/// feature of the case (matched against known_findings.json); the smallest replay
	/// per signature is kept.
	pub fn violation(&self, sig: &str, what: &str, replay: Value) {
		// which enumeration case is being evaluated: lets `verif replay` re-evaluate exactly this case
		let mut replay = replay;
		if let Value::Object(o) = &mut replay {
			let tier = if self.tier.thorough() { "thorough" } else { "quick" };
			let hist = CASE_HIST.with(|c| c.borrow().clone());
			if let Some((leg, h)) = hist {
				o.insert("case_ref".into(), json!({"tier": tier, "leg": leg, "history": h}));
			} else {
				let (leg, idx) = CASE.with(|c| c.get());
				if leg != usize::MAX {
					o.insert("case_ref".into(), json!({"tier": tier, "leg": leg, "index": idx}));
				}
			}
		}
		let size = replay.to_string().len();
		let mut v = self.viols.lock().unwrap();
		match v.get_mut(sig) {
			Some(e) => {
				e.count += 1;
				if size < e.size || (size == e.size && replay.to_string() < e.replay.to_string()) {
					e.size = size;
					e.replay = replay;
					e.what = what.to_string();
				}
			}
			None => {
				v.insert(sig.to_string(), Viol { count: 1, what: what.to_string(), replay, size });
			}
		}
	}

	/// (signature, what) of everything reported so far (used by `verif replay`)
	pub fn reported(&self) -> Vec<(String, String)> {
		self.viols.lock().unwrap().iter().map(|(k, v)| (k.clone(), v.what.clone())).collect()
	}

	pub fn violation_count(&self) -> usize {
		self.viols.lock().unwrap().len()
	}

	/// A check that is already failing massively and slowly (a broken server makes every case wait for its transport
	/// timeout) stops enumerating: what it has found decides the exit code, more of the same adds nothing. Violations that
	/// the known-findings file lists do not count. The run is then reported as not exhaustive.
	pub fn fail_fast(&self) -> bool {
		if self.start.elapsed().as_secs() < 60 {
			return false;
		}
		static KNOWN: std::sync::OnceLock<HashMap<(String, String), String>> = std::sync::OnceLock::new();
		let known = KNOWN.get_or_init(|| load_known(&crate::verif_root()));
		let cases: u64 = self.viols.lock().unwrap().iter().filter(|(sig, _)| !known.contains_key(&(self.prop.to_string(), sig.to_string()))).map(|(_, v)| v.count).sum();
		if cases >= 300 {
			let mut once = self.exhaustive.lock().unwrap();
			if *once {
				*once = false;
				drop(once);
				self.extra_push("caps_hit", json!(format!("stopped early after {cases} violating cases in {} s: the check was already failing", self.start.elapsed().as_secs())));
			}
			return true;
		}
		false
	}

	pub fn machinery_error(&self, msg: String) {
		self.machinery_errors.lock().unwrap().push(msg);
	}

	/// Write evidence + replays, print verdict lines, return the exit code.
	pub fn finish(&self) -> i32 {
		let (_, peak, pauses) = crate::mem::stats();
		self.extra("peak_live_heap_mb_(1MB_granularity)", json!(peak >> 20));
		if pauses > 0 {
			self.extra("worker_pauses_for_memory_backpressure", json!(pauses));
		}
		let root = crate::verif_root();
		let known = load_known(&root);
		let viols = self.viols.lock().unwrap();
		let mut exit = 0;
		let mut n_unlisted = 0;
		let mut known_hit = Vec::new();
		let mut lines = Vec::new();
		for (sig, v) in viols.iter() {
			if let Some(what) = known.get(&(self.prop.to_string(), sig.clone())) {
				lines.push(format!("KNOWN-FINDING: property={} {} [signature={} cases={}]", self.prop, what, sig, v.count));
				known_hit.push(json!({"signature": sig, "cases": v.count, "what": v.what, "witness": v.replay}));
			} else {
				n_unlisted += 1;
				let h = hash_of(sig) & 0xffff_ffff;
				let path = root.join("replays").join(format!("{}-{:08x}.json", self.prop, h));
				let _ = std::fs::create_dir_all(root.join("replays"));
				let body = json!({"property": self.prop, "tier": self.tier.name(), "signature": sig, "what": v.what, "cases": v.count, "replay": v.replay,
					"how_to_replay": format!("cargo run --release -q --offline -- replay {}   (re-executes this schedule / case against /repo's current tree; prints REPRODUCED or NOT-REPRODUCED)", path.display())});
				let _ = std::fs::write(&path, serde_json::to_string_pretty(&body).unwrap());
				lines.push(format!("VIOLATION property={} replay={}", self.prop, path.display()));
				eprintln!("  signature={} cases={} what={}", sig, v.count, v.what);
				exit = 1;
			}
		}
		let merr = self.machinery_errors.lock().unwrap();
		if !merr.is_empty() {
			for m in merr.iter().take(10) {
				eprintln!("MACHINERY-ERROR {}: {}", self.prop, m);
			}
			if exit == 0 {
				exit = 3;
			}
		}

		let classes = self.classes.lock().unwrap();
		let distinct = self.distinct.lock().unwrap().len() as u64 + self.unique.load(Ordering::Relaxed);
		let evals = self.evals.load(Ordering::Relaxed);
		let mut cov = Map::new();
		cov.insert("evaluations".into(), json!(evals));
		cov.insert("distinct_nontrivial".into(), json!(distinct));
		cov.insert("rule".into(), json!(self.rule.lock().unwrap().clone()));
		cov.insert("samples".into(), Value::Array(self.samples.lock().unwrap().clone()));
		let st = self.states.load(Ordering::Relaxed);
		if st > 0 {
			cov.insert("states".into(), json!(st));
			cov.insert("transitions".into(), json!(self.transitions.load(Ordering::Relaxed)));
			cov.insert("traces_validated_against_impl".into(), json!(self.traces.load(Ordering::Relaxed)));
		}
		cov.insert("exhaustive".into(), json!(*self.exhaustive.lock().unwrap() && merr.is_empty()));
		cov.insert("outcome_classes".into(), json!(classes.len()));
		let mut top: Vec<(&String, &u64)> = classes.iter().collect();
		top.sort_by(|a, b| b.1.cmp(a.1));
		let cls: Map<String, Value> = top.into_iter().take(40).map(|(k, v)| (k.clone(), json!(v))).collect();
		cov.insert("outcome_class_counts".into(), Value::Object(cls));
		cov.insert("known_findings_hit".into(), Value::Array(known_hit));
		for (k, v) in self.extra.lock().unwrap().iter() {
			cov.insert(k.clone(), v.clone());
		}
		let ev = json!({
			"property_id": self.prop,
			"tier": self.tier.name(),
			"seed": self.seed,
			"level": self.level,
			"coverage": Value::Object(cov),
			"assumptions": self.assumptions.lock().unwrap().clone(),
			"wall_s": self.elapsed(),
			"violations": n_unlisted,
		});
		let _ = std::fs::create_dir_all(root.join("evidence"));
		let path = root.join("evidence").join(format!("{}.json", self.prop));
		if let Err(e) = std::fs::write(&path, serde_json::to_string_pretty(&ev).unwrap()) {
			eprintln!("cannot write evidence {}: {e}", path.display());
			if exit == 0 {
				exit = 3;
			}
		}
		for l in lines {
			println!("{l}");
		}
		eprintln!(
			"{} {}: evaluations={} distinct_nontrivial={} states={} classes={} violations={} wall={:.1}s exit={}",
			self.prop,
			self.tier.name(),
			evals,
			distinct,
			st,
			classes.len(),
			n_unlisted,
			self.elapsed(),
			exit
		);
		exit
	}
}

fn load_known(root: &std::path::Path) -> HashMap<(String, String), String> {
	let mut m = HashMap::new();
	let Ok(txt) = std::fs::read_to_string(root.join("known_findings.json")) else { return m };
	let Ok(v) = serde_json::from_str::<Value>(&txt) else {
		eprintln!("known_findings.json does not parse");
		return m;
	};
	if let Some(a) = v.get("findings").and_then(|f| f.as_array()) {
		for f in a {
			let p = f.get("property").and_then(|x| x.as_str()).unwrap_or("").to_string();
			let s = f.get("signature").and_then(|x| x.as_str()).unwrap_or("").to_string();
			let w = f.get("what").and_then(|x| x.as_str()).unwrap_or("").to_string();
			m.insert((p, s), w);
		}
	}
	m
}
