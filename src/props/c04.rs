//! C04 — a subscription's notifications are its own, ordered, and stop at close (SCHED on SRV-MEM ws).

use crate::report::Reporter;
use crate::sched::{self, Scenario, Status, Verdict};
use crate::smem::{self, Conn, HStep, PeerAct, SrvCfg, SrvState};
use serde_json::{Value, json};
use std::collections::HashMap;
use std::time::Duration;

pub struct SubsScenario {
	pub name: String,
	pub conns: Vec<Vec<PeerAct>>,
	pub scripts: Vec<Vec<HStep>>,
	pub stop: bool,
	pub mask: fn(&str) -> bool,
	pub buffer: u32,
	pub max_subs: u32,
	/// max_response_body_size (0 = default); when set, subscription ids are wider than it, so every accept() answer is oversized
	pub max_resp: u32,
}

pub fn mask_harness_only(l: &str) -> bool {
	!(l.starts_with("server:") || l.starts_with("client:"))
}
pub fn mask_sub_points(l: &str) -> bool {
	!l.starts_with("client:") && (!l.starts_with("server:") || l.starts_with("server:sub:"))
}
pub fn mask_all_server(l: &str) -> bool {
	!l.starts_with("client:")
}

impl Scenario for SubsScenario {
	type State = SrvState;
	fn name(&self) -> String {
		format!("srv_mem/subs:{}", self.name)
	}
	fn config(&self) -> Value {
		json!({"connections": format!("{:?}", self.conns), "handler_scripts": format!("{:?}", self.scripts), "stop": self.stop, "buffer": self.buffer, "max_response_body_size": self.max_resp})
	}
	fn mask(&self) -> fn(&str) -> bool {
		self.mask
	}
	fn max_steps(&self) -> usize {
		300
	}
	fn setup(&self) -> SrvState {
		smem::setup(&SrvCfg { conns: self.conns.iter().cloned().map(Conn::Ws).collect(), scripts: self.scripts.clone(), stop: self.stop, buffer: self.buffer, max_subs: self.max_subs, max_resp: self.max_resp, low_ws: self.name.contains("low-level"), max_req: if self.name.contains("oversized-frame") { 256 } else { 0 }, wide_ids: if self.max_resp > 0 { self.max_resp as usize + 28 } else if self.name.contains("string-ids") { 3 } else { 0 }, ..Default::default() })
	}
	fn judge(&self, _st: SrvState, trace: &[String], panics: &[String], status: Status) -> Verdict {
		let mut v = monitor(trace, self.conns.len());
		if status != Status::Quiescent {
			v.push((format!("machinery:{status:?}"), format!("{status:?}")));
		}
		for p in panics {
			// a handler that calls accept() on a closed connection etc. must not panic either;
			// accept() documents a panic when its answer exceeds max_response_body_size (the peer is told -32008 first)
			if self.max_resp > 0 && p.contains("The subscription response was too big") {
				continue;
			}
			v.push(("panic".into(), p.clone()));
		}
		let outcome: Vec<&String> = trace.iter().filter(|l| l.contains(":rx:") || l.contains(":send:") && !l.ends_with("begin") || l.contains("is_closed") || l.contains("eof")).collect();
		Verdict { violations: v, outcome: format!("{outcome:?}") }
	}
}

/// The C04 monitor over a complete trace (total order of the single-threaded execution).
pub fn monitor(trace: &[String], nconns: usize) -> Vec<(String, String)> {
	let mut v: Vec<(String, String)> = Vec::new();
	// accepted subscriptions: (conn, sub id text) -> position of the accepting response frame
	let mut accepted: HashMap<(usize, String), usize> = HashMap::new();
	// closing instants exposed by the server
	let mut closed_at: HashMap<(usize, String), usize> = HashMap::new();
	let stopped_at = trace.iter().position(|l| l == "stopped:resolved");
	let mut conn_end: Vec<Option<usize>> = vec![None; nconns];
	// pending unsubscribe calls: request id -> subscription id
	let mut unsub_req: HashMap<(usize, String), String> = HashMap::new();
	for (i, l) in trace.iter().enumerate() {
		for c in 0..nconns {
			if let Some(t) = l.strip_prefix(&format!("c{c}:tx:")) {
				if let Ok(m) = serde_json::from_str::<Value>(t) {
					if m["method"] == "unsub" {
						if let (Some(id), Some(p)) = (m["id"].as_str(), m["params"].get(0)) {
							unsub_req.insert((c, id.to_string()), p.to_string());
						}
					}
				}
			}
			if let Some(t) = l.strip_prefix(&format!("c{c}:rx:")) {
				if let Ok(m) = serde_json::from_str::<Value>(t) {
					if let Some(id) = m["id"].as_str() {
						if id.starts_with('s') && m.get("result").is_some() {
							accepted.entry((c, m["result"].to_string())).or_insert(i);
						}
						if id.starts_with('u') && m["result"] == true {
							if let Some(sid) = unsub_req.get(&(c, id.to_string())) {
								closed_at.entry((c, sid.clone())).or_insert(i);
							}
						}
					}
				}
			}
			if *l == format!("c{c}:session-closed") {
				conn_end[c].get_or_insert(i);
			}
		}
	}
	// frames
	let mut delivered: HashMap<(usize, String), Vec<Value>> = HashMap::new();
	let mut close_msgs: HashMap<(usize, String), usize> = HashMap::new();
	for (i, l) in trace.iter().enumerate() {
		for c in 0..nconns {
			let Some(t) = l.strip_prefix(&format!("c{c}:rx:")) else { continue };
			let Ok(m) = serde_json::from_str::<Value>(t) else {
				v.push(("frame-not-json".into(), format!("connection {c} received {t:?}")));
				continue;
			};
			if m.get("method").is_none() {
				continue;
			}
			let sid = m["params"]["subscription"].to_string();
			let key = (c, sid.clone());
			if m["method"] != "n" {
				v.push(("notification:wrong-method-name".into(), format!("connection {c}: notification {t} does not carry the subscription's notification method name")));
			}
			match accepted.get(&key) {
				None => v.push(("notification:for-unaccepted-or-foreign-subscription".into(), format!("connection {c} received {t}, but no subscription with that id was accepted on this connection"))),
				Some(p) if *p > i => v.push(("notification:before-accept-response".into(), format!("connection {c} received {t} before the response that accepted subscription {sid}"))),
				_ => {}
			}
			if m["params"].get("error").is_some() || m["params"]["result"] == "final" {
				*close_msgs.entry(key.clone()).or_insert(0) += 1;
			} else {
				delivered.entry(key).or_default().push(m["params"]["result"].clone());
			}
		}
	}
	for (k, n) in &close_msgs {
		if *n > 1 {
			v.push(("close-notification:more-than-one".into(), format!("subscription {k:?} got {n} closing notifications")));
		}
	}
	// handler side
	let mut ok_sends: HashMap<(usize, String), Vec<u64>> = HashMap::new();
	for (i, l) in trace.iter().enumerate() {
		let Some(rest) = l.strip_prefix("h:") else { continue };
		let parts: Vec<&str> = rest.splitn(3, ':').collect();
		if parts.len() < 3 {
			continue;
		}
		let Ok(c) = parts[0].parse::<usize>() else { continue };
		let sid = parts[1].to_string();
		let key = (c, sid.clone());
		let ev = parts[2];
		// the instant after which the subscription is closed, as exposed by the server
		let mut t_closed = closed_at.get(&key).copied();
		for t in [conn_end.get(c).copied().flatten(), stopped_at].into_iter().flatten() {
			t_closed = Some(t_closed.map_or(t, |x| x.min(t)));
		}
		if let Some(n) = ev.strip_prefix("send:") {
			let mut it = n.split(':');
			let num: u64 = it.next().and_then(|x| x.parse().ok()).unwrap_or(0);
			match it.next() {
				Some("ok") => {
					ok_sends.entry(key.clone()).or_default().push(num);
					// find the begin of this send
					let begin = trace[..i].iter().rposition(|x| *x == format!("h:{c}:{sid}:send:{num}:begin")).unwrap_or(i);
					if let Some(tc) = t_closed {
						if begin > tc {
							let how = if closed_at.contains_key(&key) && closed_at[&key] == tc { "unsubscribe" } else if stopped_at == Some(tc) { "stop" } else { "connection-end" };
							v.push((format!("send-after-close-succeeded:{how}"), format!("handler {c}/{sid}: send #{num} started (trace position {begin}) after the subscription was closed by {how} (position {tc}) but returned Ok")));
						}
					}
				}
				_ => {}
			}
		}
		if let Some(r) = ev.strip_prefix("is_closed:") {
			if r.ends_with("false") {
				if let Some(tc) = t_closed {
					if i > tc {
						let how = if closed_at.contains_key(&key) && closed_at[&key] == tc { "unsubscribe" } else if stopped_at == Some(tc) { "stop" } else { "connection-end" };
						v.push((format!("is_closed-false-after-close:{how}"), format!("handler {c}/{sid}: is_closed() returned false at position {i}, after the subscription was closed by {how} at {tc}")));
					}
				}
			}
		}
		if ev == "reject" || ev == "drop-pending" {
			if delivered.contains_key(&key) || close_msgs.contains_key(&key) {
				v.push(("notification:for-rejected-subscription".into(), format!("subscription {key:?} was rejected/dropped but notifications for it were sent")));
			}
		}
	}
	// order and content: delivered payloads are a prefix of the successful sends, in order
	for (key, frames) in &delivered {
		let sends: Vec<Value> = ok_sends.get(key).map(|s| s.iter().map(|n| json!(n)).collect()).unwrap_or_default();
		if frames.len() > sends.len() || frames[..] != sends[..frames.len()] {
			v.push(("notification:order-or-content".into(), format!("subscription {key:?}: the peer received payloads {frames:?} but the handler's successful sends were {sends:?}")));
		}
		// nothing produced after the close instant may appear
	}
	// a payload never crosses to another connection / subscription: covered by the per-key comparison
	// close messages only for accepted subscriptions
	for key in close_msgs.keys() {
		if !accepted.contains_key(key) {
			v.push(("close-notification:for-unaccepted-subscription".into(), format!("a closing notification was sent for {key:?}, which was never accepted")));
		}
	}
	v
}

pub fn scenarios(thorough: bool) -> Vec<SubsScenario> {
	use HStep::*;
	use PeerAct::*;
	let mut v = vec![
		// a frame above max_request_body_size from the peer is answered -32007 and changes nothing for the subscription
		SubsScenario { name: String::from("oversized-frame-vs-sends"), conns: vec![vec![Subscribe(0), Oversized(300), Unsub(0)]], scripts: vec![vec![Accept, Send, IsClosed, Send, IsClosed, ReturnErr]], stop: false, mask: mask_harness_only, buffer: 16, max_subs: 16, max_resp: 0 },
		SubsScenario { name: String::from("unsubscribe-vs-sends"), conns: vec![vec![Subscribe(0), Unsub(0)]], scripts: vec![vec![Accept, Send, IsClosed, Send, IsClosed, Send, ReturnErr]], stop: false, mask: mask_sub_points, buffer: 16, max_subs: 16, max_resp: 0 },
		SubsScenario { name: String::from("close-frame-vs-sends"), conns: vec![vec![Subscribe(0), CloseFrame]], scripts: vec![vec![Accept, Send, IsClosed, Send, IsClosed]], stop: false, mask: mask_harness_only, buffer: 16, max_subs: 16, max_resp: 0 },
		SubsScenario { name: String::from("drop-vs-sends"), conns: vec![vec![Subscribe(0), Drop]], scripts: vec![vec![Accept, Send, IsClosed, Send, ReturnMsg]], stop: false, mask: mask_harness_only, buffer: 16, max_subs: 16, max_resp: 0 },
		SubsScenario { name: String::from("stop-vs-sends"), conns: vec![vec![Subscribe(0)]], scripts: vec![vec![Accept, Send, IsClosed, Send, IsClosed, ReturnErr]], stop: true, mask: mask_harness_only, buffer: 16, max_subs: 16, max_resp: 0 },
		SubsScenario { name: String::from("reject"), conns: vec![vec![Subscribe(0), Call]], scripts: vec![vec![Reject, ReturnErr]], stop: false, mask: mask_sub_points, buffer: 16, max_subs: 16, max_resp: 0 },
		SubsScenario { name: String::from("drop-pending"), conns: vec![vec![Subscribe(0), Call]], scripts: vec![vec![DropPending, ReturnMsg]], stop: false, mask: mask_sub_points, buffer: 16, max_subs: 16, max_resp: 0 },
		SubsScenario {
			name: String::from("two-subs-one-conn"),
			conns: vec![vec![Subscribe(0), Subscribe(1), Unsub(0)]],
			scripts: vec![vec![Accept, Send, Send, IsClosed], vec![Accept, Send, ReturnMsg]],
			stop: false,
			mask: mask_harness_only,
			buffer: 16,
			max_subs: 16,
			max_resp: 0,
		},
		SubsScenario {
			name: String::from("two-conns-foreign-unsub"),
			conns: vec![vec![Subscribe(0), UnsubForeign(1, 0)], vec![Subscribe(1)]],
			scripts: vec![vec![Accept, Send, IsClosed], vec![Accept, Send, IsClosed, Send]],
			stop: false,
			mask: mask_harness_only,
			buffer: 16,
			max_subs: 16,
			max_resp: 0,
		},
		SubsScenario { name: String::from("try-send-and-closed"), conns: vec![vec![Subscribe(0), Unsub(0)]], scripts: vec![vec![Accept, TrySend, AwaitClosed, IsClosed, TrySend]], stop: false, mask: mask_harness_only, buffer: 16, max_subs: 16, max_resp: 0 },
		SubsScenario { name: String::from("return-close-message-vs-unsubscribe"), conns: vec![vec![Subscribe(0), Unsub(0)]], scripts: vec![vec![Accept, Send, ReturnMsg]], stop: false, mask: mask_sub_points, buffer: 16, max_subs: 16, max_resp: 0 },
		SubsScenario { name: String::from("accept-cancelled-under-backpressure"), conns: vec![vec![Call, Subscribe(0), Call]], scripts: vec![vec![AcceptCancellable, ReturnErr]], stop: false, mask: mask_all_server, buffer: 1, max_subs: 16, max_resp: 0 },
		// the accept() answer exceeds max_response_body_size: the peer is told -32008, so the subscription was never accepted
		SubsScenario { name: String::from("oversized-accept-answer"), conns: vec![vec![Subscribe(0), Call]], scripts: vec![vec![Accept, Send, Send, ReturnMsg]], stop: false, mask: mask_sub_points, buffer: 16, max_subs: 16, max_resp: 100 },
		// server stop while an ordinary call on the same connection is still executing: until stopped() resolves the
		// subscription may stay open, afterwards the sink must report closed and sends must fail
		SubsScenario { name: String::from("stop-with-call-in-flight"), conns: vec![vec![Subscribe(0), SlowCall]], scripts: vec![vec![Accept, Send, IsClosed, Send, IsClosed, Send]], stop: true, mask: mask_harness_only, buffer: 16, max_subs: 16, max_resp: 0 },
		SubsScenario { name: String::from("stop-with-call-in-flight-two-conns"), conns: vec![vec![Subscribe(0)], vec![SlowCall]], scripts: vec![vec![Accept, Send, IsClosed, Send, IsClosed]], stop: true, mask: mask_harness_only, buffer: 16, max_subs: 16, max_resp: 0 },
		// the peer stops reading, a notification larger than the socket buffer stalls the connection's writer, then the server is stopped
		SubsScenario { name: String::from("stop-with-stalled-writer"), conns: vec![vec![Subscribe(0), StopReading]], scripts: vec![vec![Accept, SendBig, Send, IsClosed, Send, IsClosed]], stop: true, mask: mask_harness_only, buffer: 2, max_subs: 16, max_resp: 0 },
		// reject / drop the pending sink and return a closing value in the same poll (the closing value must be discarded
		// although the subscribe call's own task has not run again yet)
		SubsScenario { name: String::from("reject-and-return-at-once"), conns: vec![vec![Subscribe(0), Call]], scripts: vec![vec![RejectThenReturnErr]], stop: false, mask: mask_sub_points, buffer: 16, max_subs: 16, max_resp: 0 },
		SubsScenario { name: String::from("drop-pending-and-return-at-once"), conns: vec![vec![Subscribe(0), Call]], scripts: vec![vec![DropPendingThenReturnMsg]], stop: false, mask: mask_sub_points, buffer: 16, max_subs: 16, max_resp: 0 },
		SubsScenario { name: String::from("reject-and-return-at-once-two-subs"), conns: vec![vec![Subscribe(0), Subscribe(1)]], scripts: vec![vec![RejectThenReturnErr], vec![Accept, Send, ReturnMsg]], stop: false, mask: mask_harness_only, buffer: 16, max_subs: 16, max_resp: 0 },
		// the low-level assembly (application-made tower service around ws::connect)
		SubsScenario { name: String::from("low-level:unsubscribe-vs-sends"), conns: vec![vec![Subscribe(0), Unsub(0)]], scripts: vec![vec![Accept, Send, IsClosed, Send, IsClosed, ReturnErr]], stop: false, mask: mask_harness_only, buffer: 16, max_subs: 16, max_resp: 0 },
		SubsScenario { name: String::from("low-level:stop-vs-sends"), conns: vec![vec![Subscribe(0)]], scripts: vec![vec![Accept, Send, IsClosed, Send, IsClosed, ReturnErr]], stop: true, mask: mask_harness_only, buffer: 16, max_subs: 16, max_resp: 0 },
		SubsScenario { name: String::from("low-level:drop-vs-sends"), conns: vec![vec![Subscribe(0), Drop]], scripts: vec![vec![Accept, Send, IsClosed, Send, ReturnMsg]], stop: false, mask: mask_harness_only, buffer: 16, max_subs: 16, max_resp: 0 },
		// string subscription ids (id provider): the id travels as a JSON string in responses, notifications and unsubscribe params
		SubsScenario { name: String::from("string-ids:unsubscribe-vs-sends"), conns: vec![vec![Subscribe(0), Unsub(0)]], scripts: vec![vec![Accept, Send, IsClosed, Send, ReturnErr]], stop: false, mask: mask_harness_only, buffer: 16, max_subs: 16, max_resp: 0 },
		SubsScenario { name: String::from("string-ids:two-subs-foreign-unsub"), conns: vec![vec![Subscribe(0), UnsubForeign(1, 0)], vec![Subscribe(1)]], scripts: vec![vec![Accept, Send, IsClosed], vec![Accept, Send, IsClosed, Send]], stop: false, mask: mask_harness_only, buffer: 16, max_subs: 16, max_resp: 0 },
		SubsScenario { name: String::from("tiny-buffer"), conns: vec![vec![Subscribe(0), Call, Unsub(0)]], scripts: vec![vec![Accept, Send, Send, Send, IsClosed]], stop: false, mask: mask_harness_only, buffer: 1, max_subs: 16, max_resp: 0 },
	];
	if thorough {
		v.push(SubsScenario {
			name: String::from("two-conns-stop"),
			conns: vec![vec![Subscribe(0), Unsub(0)], vec![Subscribe(1), CloseFrame]],
			scripts: vec![vec![Accept, Send, IsClosed, Send], vec![Accept, Send, IsClosed, Send, ReturnErr]],
			stop: true,
			mask: mask_harness_only,
			buffer: 16,
			max_subs: 16,
			max_resp: 0,
		});
		v.push(SubsScenario { name: String::from("unsubscribe-vs-sends-all-server-points"), conns: vec![vec![Subscribe(0), Unsub(0)]], scripts: vec![vec![Accept, Send, IsClosed, Send, ReturnErr]], stop: false, mask: mask_all_server, buffer: 16, max_subs: 16, max_resp: 0 });
		v.push(SubsScenario { name: String::from("stop-vs-sends-all-server-points"), conns: vec![vec![Subscribe(0)]], scripts: vec![vec![Accept, Send, IsClosed, Send]], stop: true, mask: mask_all_server, buffer: 16, max_subs: 16, max_resp: 0 });
	}
	// systematic product: peer scripts × handler scripts × stop × point masks
	let handler_scripts: Vec<Vec<HStep>> = vec![
		vec![Accept, Send, Send, IsClosed, Send],
		vec![Accept, Send, ReturnErr],
		vec![Accept, Send, ReturnMsg],
		vec![Accept, TrySend, AwaitClosed, IsClosed, TrySend],
		vec![Reject, ReturnErr],
		vec![DropPending, ReturnMsg],
		vec![Accept, CloneSink, SendVia(1), IsClosed, SendVia(0)],
	];
	let peer_one: Vec<Vec<PeerAct>> = vec![vec![Subscribe(0), Unsub(0)], vec![Subscribe(0), CloseFrame], vec![Subscribe(0), Drop], vec![Subscribe(0), Call, Unsub(0), Call]];
	for (pi, peer) in peer_one.iter().enumerate() {
		for (hi, h) in handler_scripts.iter().enumerate() {
			for stop in [false, true] {
				if !thorough && stop && hi > 2 {
					continue;
				}
				for (mi, mask) in [mask_harness_only as fn(&str) -> bool, mask_sub_points].into_iter().enumerate() {
					if !thorough && mi == 1 && (pi + hi) % 2 == 1 {
						continue;
					}
					v.push(SubsScenario { name: format!("product:p{pi}:h{hi}:stop={stop}:mask{mi}"), conns: vec![peer.clone()], scripts: vec![h.clone()], stop, mask, buffer: 16, max_subs: 16, max_resp: 0 });
				}
			}
		}
	}
	// two subscriptions on one connection, every pair of handler scripts
	let peer_two: Vec<Vec<PeerAct>> = vec![vec![Subscribe(0), Subscribe(1), Unsub(0)], vec![Subscribe(0), Subscribe(1), Unsub(1), CloseFrame]];
	for (pi, peer) in peer_two.iter().enumerate() {
		for (ai, a) in handler_scripts.iter().enumerate() {
			for (bi, b) in handler_scripts.iter().enumerate() {
				if !thorough && (ai > 2 || bi > 3 || pi == 1) {
					continue;
				}
				v.push(SubsScenario { name: format!("product2:p{pi}:h{ai}:h{bi}"), conns: vec![peer.clone()], scripts: vec![a.clone(), b.clone()], stop: false, mask: mask_harness_only, buffer: 16, max_subs: 16, max_resp: 0 });
			}
		}
	}
	v
}

pub fn check(rep: &Reporter) {
	rep.assume("scenario oversized-accept-answer: max_response_body_size 100 with 128-byte subscription ids, so the accept() answer is replaced by -32008 and the subscription counts as never accepted; accept()'s documented panic in that configuration is not reported");
	let thorough = rep.tier.thorough();
	rep.set_rule(
		"WebSocket connections (1–2) served in memory by the real TowerService; scenarios combine peer scripts over {subscribe, unsubscribe own/foreign id, call, a frame above max_request_body_size, close frame, abrupt drop}, puppet handler scripts over {accept, reject, drop pending, send, try_send, is_closed, closed().await, return none/error/close message}, server stop, message buffer 16/1; every peer action, every handler step, stop() and (per scenario) the library's cfg points in accept/send/close-notification or all server tasks are scheduling points; complete schedule tree when ≤ cap executions, else all schedules with ≤ K deviations. Monitor over the complete frame list of each connection and the handler log in trace order.",
	);
	rep.assume("closing instants are taken from what the server exposes: unsubscribe answered true as seen by the peer, on_session_closed() resolved, stopped() resolved");
	for s in scenarios(thorough) {
		sched::explore_auto(&s, rep, if thorough { 400_000 } else { 15_000 }, if thorough { 3 } else { 2 }, if thorough { 10 } else { 50 }, Duration::from_secs(if thorough { 300 } else { 8 }));
	}
}

pub fn dyn_scenarios() -> Vec<Box<dyn sched::DynScenario>> {
	let mut v: Vec<Box<dyn sched::DynScenario>> = Vec::new();
	for s in scenarios(true) {
		v.push(Box::new(s));
	}
	for s in scenarios(false) {
		v.push(Box::new(s));
	}
	v
}
