//! Reference classifier for messages sent to the server (C01/C02), written on the pair-preserving JSON tree
//! and independent of jsonrpsee's own types; plus the two transports' "send one message, collect every frame" drivers.

use crate::refmodel::{PJ, wellformed_response};
use crate::srv::{self, HttpOut, WsServer};
use jsonrpsee_server::BatchRequestConfig;
use serde_json::{Value, json};

#[derive(Clone, Debug, PartialEq)]
pub enum Payload {
	/// exactly this result
	Result(Value),
	/// any successful result (subscription ids)
	AnyResult,
	/// an error whose code is one of these
	Err(Vec<i64>),
	/// this exact error object
	ErrObj(Value),
}

#[derive(Clone, Debug, PartialEq)]
pub struct ExpReply {
	/// expected id (Value::Null for "null")
	pub id: Value,
	pub payload: Payload,
	/// the name of the handler that must have run for this reply (None = no handler)
	pub handler: Option<String>,
}

#[derive(Clone, Debug, PartialEq)]
pub enum Expect {
	Nothing,
	One(ExpReply),
	/// one of several acceptable single replies (top-level scalars: -32700 or -32600)
	Array(Vec<ExpReply>),
	/// duplicate known members: only the weak clauses are judged
	Weak,
}

#[derive(Clone, Copy, Debug, PartialEq)]
pub enum Transport {
	Http,
	Ws,
}

fn err(id: Value, codes: &[i64]) -> ExpReply {
	ExpReply { id, payload: Payload::Err(codes.to_vec()), handler: None }
}

const KNOWN: [&str; 4] = ["jsonrpc", "id", "method", "params"];

#[derive(Debug, Clone, PartialEq)]
pub enum Kind {
	Call,
	Notification,
	Invalid,
	Ambiguous,
}

/// classify one JSON value as a single message / batch entry
pub fn classify(v: &PJ) -> (Kind, Option<Value>) {
	let PJ::Obj(members) = v else { return (Kind::Invalid, None) };
	for k in KNOWN {
		if members.iter().filter(|(n, _)| n == k).count() > 1 {
			return (Kind::Ambiguous, None);
		}
	}
	let ver_ok = matches!(v.members("jsonrpc").as_slice(), [PJ::Str(s)] if s == "2.0");
	let method_ok = matches!(v.members("method").as_slice(), [PJ::Str(_)]);
	let id = v.members("id").first().map(|x| (*x).clone());
	let id_in = id.as_ref().filter(|i| i.in_id_domain()).map(|i| i.to_value());
	if ver_ok && method_ok {
		match id_in {
			Some(i) => (Kind::Call, Some(i)),
			None => (Kind::Notification, None),
		}
	} else {
		(Kind::Invalid, id_in)
	}
}

/// what the harness handlers compute
pub fn handler_reply(v: &PJ, id: Value, transport: Transport) -> ExpReply {
	let method = match v.members("method").as_slice() {
		[PJ::Str(s)] => s.clone(),
		_ => unreachable!(),
	};
	let params: Option<Value> = v.members("params").first().map(|p| p.to_value());
	// `"params":null` is "no params"
	let params = params.filter(|p| !p.is_null());
	let h = Some(method.clone());
	match method.as_str() {
		"sync_echo" | "async_echo" | "blocking_echo" => ExpReply { id, payload: Payload::Result(srv::echo_result(&method, params.as_ref())), handler: h },
		// every call, alone or in a batch, on either transport, carries the connection's id
		"whoami" => ExpReply { id, payload: Payload::Result(json!({"has_connection_id": true})), handler: h },
		"blocking_panic" => ExpReply { id, payload: Payload::Err(vec![-32603]), handler: h },
		"add" => {
			let ok = match &params {
				Some(Value::Array(a)) if a.len() >= 2 => match (a[0].as_u64(), a[1].as_u64()) {
					(Some(x), Some(y)) if a[0].is_u64() && a[1].is_u64() => Some(x.wrapping_add(y)),
					_ => None,
				},
				_ => None,
			};
			match ok {
				Some(s) => ExpReply { id, payload: Payload::Result(json!(s)), handler: h },
				None => ExpReply { id, payload: Payload::Err(vec![-32602]), handler: h },
			}
		}
		"fail" => ExpReply { id, payload: Payload::ErrObj(json!({"code": 1234, "message": "custom failure", "data": {"k": [1, 2]}})), handler: h },
		"sub" => match transport {
			Transport::Ws => ExpReply { id, payload: Payload::AnyResult, handler: h },
			Transport::Http => ExpReply { id, payload: Payload::Err(vec![-32603]), handler: None },
		},
		"unsub" => match transport {
			Transport::Ws => ExpReply { id, payload: Payload::Result(json!(false)), handler: None },
			Transport::Http => ExpReply { id, payload: Payload::Err(vec![-32603]), handler: None },
		},
		_ => ExpReply { id, payload: Payload::Err(vec![-32601]), handler: None },
	}
}

fn entry_expect(v: &PJ, transport: Transport, in_batch: bool) -> Option<Option<ExpReply>> {
	// Some(None) = no reply; None = ambiguous
	let (kind, id) = classify(v);
	match kind {
		Kind::Ambiguous => None,
		Kind::Notification => Some(None),
		Kind::Call => Some(Some(handler_reply(v, id.unwrap(), transport))),
		Kind::Invalid => {
			if in_batch {
				Some(Some(err(id.unwrap_or(Value::Null), &[-32600])))
			} else {
				match id {
					Some(i) => Some(Some(err(i, &[-32600, -32700]))),
					None => Some(Some(err(Value::Null, &[-32600, -32700]))),
				}
			}
		}
	}
}

pub fn first_non_ws(b: &[u8]) -> Option<(usize, u8)> {
	b.iter().enumerate().find(|(_, c)| !c.is_ascii_whitespace()).map(|(i, c)| (i, *c))
}

/// The reference answer for one message.
pub fn expect(bytes: &[u8], transport: Transport, batch: BatchRequestConfig) -> Expect {
	let Some((idx, first)) = first_non_ws(bytes) else {
		return Expect::One(err(Value::Null, &[-32700]));
	};
	let body = &bytes[idx..];
	// Byte strings that are not UTF-8 are judged on the weak clauses only: whether serde_json validates UTF-8 inside
	// members that the request types skip is not jsonrpsee's layer.
	if (first == b'{' || first == b'[') && std::str::from_utf8(body).is_err() {
		return Expect::Weak;
	}
	match first {
		b'{' => match PJ::parse(body) {
			None => Expect::One(err(Value::Null, &[-32700])),
			Some(v) => match entry_expect(&v, transport, false) {
				None => Expect::Weak,
				Some(None) => Expect::Nothing,
				Some(Some(r)) => Expect::One(r),
			},
		},
		b'[' => {
			if let BatchRequestConfig::Disabled = batch {
				return Expect::One(err(Value::Null, &[-32005]));
			}
			match PJ::parse(body) {
				Some(PJ::Arr(entries)) => {
					let limit = match batch {
						BatchRequestConfig::Limit(n) => n as usize,
						_ => usize::MAX,
					};
					if entries.len() > limit {
						return Expect::One(err(Value::Null, &[-32010]));
					}
					if entries.is_empty() {
						return Expect::One(err(Value::Null, &[-32600]));
					}
					let mut out = Vec::new();
					for e in &entries {
						match entry_expect(e, transport, true) {
							None => return Expect::Weak,
							Some(None) => {}
							Some(Some(r)) => out.push(r),
						}
					}
					if out.is_empty() { Expect::Nothing } else { Expect::Array(out) }
				}
				_ => Expect::One(err(Value::Null, &[-32700])),
			}
		}
		// not `{`/`[`: not a JSON-RPC message; a top-level JSON scalar may also be called an invalid request
		_ => Expect::One(err(Value::Null, &[-32700, -32600])),
	}
}

pub fn reply_matches(got: &Value, exp: &ExpReply) -> Result<(), String> {
	if got.get("id") != Some(&exp.id) {
		return Err(format!("id is {} but expected {}", got.get("id").map_or("absent".to_string(), |i| i.to_string()), exp.id));
	}
	match &exp.payload {
		Payload::Result(r) => {
			if got.get("result") != Some(r) {
				return Err(format!("expected result {r}"));
			}
		}
		Payload::AnyResult => {
			if got.get("result").is_none() {
				return Err("expected a successful result".into());
			}
		}
		Payload::Err(codes) => {
			let c = got.get("error").and_then(|e| e.get("code")).and_then(|c| c.as_i64());
			if !c.map_or(false, |c| codes.contains(&c)) {
				return Err(format!("expected error code in {codes:?}"));
			}
		}
		Payload::ErrObj(o) => {
			if got.get("error") != Some(o) {
				return Err(format!("expected error object {o}"));
			}
		}
	}
	Ok(())
}

/// Is this frame a notification (has a method member, no id)? Those are not replies.
pub fn is_notification_frame(v: &PJ) -> bool {
	matches!(v, PJ::Obj(_)) && !v.members("method").is_empty() && v.members("id").is_empty()
}

/// Judge the complete list of reply frames (notifications already removed) against the expectation.
/// Returns (clause, detail) on failure.
pub fn judge(frames: &[Vec<u8>], exp: &Expect) -> Result<(), (String, String)> {
	let show = |f: &[Vec<u8>]| f.iter().map(|x| String::from_utf8_lossy(x).to_string()).collect::<Vec<_>>();
	let parsed: Vec<Option<PJ>> = frames.iter().map(|f| PJ::parse(f)).collect();
	for (p, f) in parsed.iter().zip(frames) {
		match p {
			None => return Err(("reply-not-json".into(), format!("reply {:?} is not JSON", String::from_utf8_lossy(f)))),
			Some(PJ::Obj(_)) => {
				if let Err(w) = wellformed_response(p.as_ref().unwrap()) {
					return Err(("reply-malformed".into(), format!("reply {:?}: {w}", String::from_utf8_lossy(f))));
				}
			}
			Some(PJ::Arr(items)) => {
				for it in items {
					if let Err(w) = wellformed_response(it) {
						return Err(("reply-malformed".into(), format!("array entry in {:?}: {w}", String::from_utf8_lossy(f))));
					}
				}
			}
			Some(_) => return Err(("reply-malformed".into(), format!("reply {:?} is neither object nor array", String::from_utf8_lossy(f)))),
		}
	}
	match exp {
		Expect::Weak => {
			if frames.len() > 1 {
				return Err(("more-than-one-reply".into(), format!("{} replies: {:?}", frames.len(), show(frames))));
			}
			Ok(())
		}
		Expect::Nothing => {
			if !frames.is_empty() {
				return Err(("reply-to-notification".into(), format!("expected no reply, got {:?}", show(frames))));
			}
			Ok(())
		}
		Expect::One(r) => {
			if frames.is_empty() {
				return Err(("no-reply".into(), format!("expected one reply ({r:?}), got none")));
			}
			if frames.len() > 1 {
				return Err(("more-than-one-reply".into(), format!("{} replies: {:?}", frames.len(), show(frames))));
			}
			let v = parsed[0].as_ref().unwrap();
			if !matches!(v, PJ::Obj(_)) {
				return Err(("array-for-single".into(), format!("single message answered by {:?}", show(frames))));
			}
			reply_matches(&v.to_value(), r).map_err(|w| (format!("wrong-reply:{}", payload_kind(&r.payload)), format!("reply {:?}: {w}", show(frames))))
		}
		Expect::Array(rs) => {
			if frames.is_empty() {
				return Err(("no-reply".into(), "expected one array, got nothing".into()));
			}
			if frames.len() > 1 {
				return Err(("reply-outside-array".into(), format!("{} frames for one batch: {:?}", frames.len(), show(frames))));
			}
			let Some(PJ::Arr(items)) = &parsed[0] else {
				return Err(("batch-not-array".into(), format!("batch answered by {:?}", show(frames))));
			};
			if items.len() != rs.len() {
				return Err(("batch-wrong-count".into(), format!("{} entries in {:?}, expected {}", items.len(), show(frames), rs.len())));
			}
			// multiset match
			let mut used = vec![false; items.len()];
			for r in rs {
				let mut found = false;
				for (k, it) in items.iter().enumerate() {
					if !used[k] && reply_matches(&it.to_value(), r).is_ok() {
						used[k] = true;
						found = true;
						break;
					}
				}
				if !found {
					return Err((format!("batch-entry-missing:{}", payload_kind(&r.payload)), format!("no entry of {:?} matches expected {r:?}", show(frames))));
				}
			}
			Ok(())
		}
	}
}

fn payload_kind(p: &Payload) -> String {
	match p {
		Payload::Result(_) | Payload::AnyResult => "result".into(),
		Payload::Err(c) => format!("err{}", c[0]),
		Payload::ErrObj(_) => "custom-error".into(),
	}
}

pub fn expected_handlers(exp: &Expect) -> Option<Vec<String>> {
	match exp {
		Expect::Weak => None,
		Expect::Nothing => Some(vec![]),
		Expect::One(r) => Some(r.handler.iter().cloned().collect()),
		Expect::Array(rs) => Some(rs.iter().filter_map(|r| r.handler.clone()).collect()),
	}
}

pub const SENTINEL: &str = r#"{"jsonrpc":"2.0","id":"__sentinel__","method":"add","params":[20,22]}"#;

pub fn is_sentinel_reply(f: &[u8]) -> bool {
	serde_json::from_slice::<Value>(f).map_or(false, |v| v["id"] == "__sentinel__")
}

#[derive(Debug)]
pub struct Observed {
	/// reply frames attributable to the message (sentinel reply and notifications removed)
	pub replies: Vec<Vec<u8>>,
	pub notifications: Vec<Vec<u8>>,
	pub handlers: Vec<String>,
	pub sentinel_ok: bool,
	pub http_status: Option<u16>,
	pub problem: Option<String>,
}

/// HTTP: one call with the message as body, then the sentinel on the same service.
pub async fn http_roundtrip(svc: &mut srv::HttpSvc, msg: &[u8]) -> Observed {
	svc.log.lock().unwrap().clear();
	let out: Result<HttpOut, String> = srv::http_call(&mut svc.svc, srv::post(vec![msg.to_vec()], None)).await;
	let handlers = svc.log.lock().unwrap().clone();
	let s = srv::http_call(&mut svc.svc, srv::post(vec![SENTINEL.as_bytes().to_vec()], None)).await;
	let sentinel_ok = s.as_ref().map_or(false, |o| o.status == 200 && is_sentinel_reply(&o.body));
	match out {
		Err(e) => Observed { replies: vec![], notifications: vec![], handlers, sentinel_ok, http_status: None, problem: Some(e) },
		Ok(o) => {
			// an empty / `null` body is the HTTP acknowledgement of "no reply"
			let replies = if o.body.is_empty() || o.body == b"null" { vec![] } else { vec![o.body.clone()] };
			Observed { replies, notifications: vec![], handlers, sentinel_ok, http_status: Some(o.status), problem: None }
		}
	}
}

/// WS: fresh connection, message, sentinel, wait for the sentinel's reply, stop, read until close.
pub async fn ws_roundtrip(server: &WsServer, msg: &[u8]) -> Observed {
	let (stop, handle) = jsonrpsee_server::stop_channel();
	let svc = server.builder.clone().build(server.methods.clone(), stop.clone());
	server.log.lock().unwrap().clear();
	let mut obs = Observed { replies: vec![], notifications: vec![], handlers: vec![], sentinel_ok: false, http_status: None, problem: None };
	let mut conn = match srv::ws_connect(svc, stop).await {
		Ok(c) => c,
		Err(e) => {
			obs.problem = Some(e);
			return obs;
		}
	};
	if let Err(e) = conn.send(msg).await {
		obs.problem = Some(format!("send: {e}"));
		return obs;
	}
	if let Err(e) = conn.send(SENTINEL.as_bytes()).await {
		obs.problem = Some(format!("send sentinel: {e}"));
		return obs;
	}
	let mut stopped = false;
	loop {
		let f = match tokio::time::timeout(std::time::Duration::from_secs(20), conn.recv()).await {
			Err(_) => {
				obs.problem = Some("hang: no frame and no close within 20 s".into());
				break;
			}
			Ok(None) => break,
			Ok(Some(f)) => f,
		};
		if is_sentinel_reply(&f) {
			obs.sentinel_ok = serde_json::from_slice::<Value>(&f).map_or(false, |v| v["result"] == 42);
			if !stopped {
				stopped = true;
				let _ = handle.stop();
			}
			continue;
		}
		match PJ::parse(&f) {
			Some(v) if is_notification_frame(&v) => obs.notifications.push(f),
			_ => obs.replies.push(f),
		}
	}
	if !stopped {
		let _ = handle.stop();
	}
	let _ = tokio::time::timeout(std::time::Duration::from_secs(20), conn.serve).await;
	obs.handlers = server.log.lock().unwrap().iter().filter(|h| *h != "add").cloned().collect();
	// the sentinel itself calls `add`; the message's own `add` calls are the surplus
	let adds = server.log.lock().unwrap().iter().filter(|h| *h == "add").count();
	for _ in 1..adds {
		obs.handlers.push("add".into());
	}
	obs
}

pub fn http_handlers_fix(mut o: Observed) -> Observed {
	// HTTP log is read before the sentinel call, nothing to subtract
	o.handlers.sort();
	o
}
