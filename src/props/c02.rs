//! C02 — a batch is answered by one array with exactly one reply per call entry (ENUM; SRV-HTTP + SRV-MEM ws).

use super::c01::{hex, run_case};
use super::srvref::{self, Expect, Transport};
use crate::par::{par_for, seq_count, seq_decode};
use crate::report::Reporter;
use crate::srv;
use jsonrpsee_server::BatchRequestConfig;
use serde_json::json;

/// entry alphabet (text of one batch entry)
const ENTRIES: [&str; 15] = [
	r#"{"jsonrpc":"2.0","id":1,"method":"add","params":[1,2]}"#,
	r#"{"jsonrpc":"2.0","method":"sync_echo","params":[1]}"#,
	r#"{"jsonrpc":"2.0","id":1,"method":"sync_echo","params":["again"]}"#,
	r#"{"jsonrpc":"2.0","id":2,"method":"nope"}"#,
	r#"{"jsonrpc":"2.0","id":"s","method":"add","params":["x"]}"#,
	r#"{"id":4,"method":"add"}"#,
	r#"{"jsonrpc":"2.0","method":5}"#,
	r#"1"#,
	r#"{"jsonrpc":"2.0","id":6,"method":"unsub","params":[0]}"#,
	r#"{"jsonrpc":"2.0","id":7,"method":"async_echo","params":{"k":1}}"#,
	r#"["2.0",8,"sync_echo",[1]]"#,
	r#"{"jsonrpc":"2.0","id":9,"method":"fail"}"#,
	// a handler that answers from the request extensions (connection id)
	r#"{"jsonrpc":"2.0","id":11,"method":"whoami"}"#,
	// array-encoded notification (serde would read a struct from a sequence): not an object, hence an invalid entry
	r#"["2.0","sync_echo",[1]]"#,
	r#"{"jsonrpc":"2.0","id":10,"method":"sub","params":[2]}"#,
];

const CONFIGS: [BatchRequestConfig; 5] =
	[BatchRequestConfig::Unlimited, BatchRequestConfig::Disabled, BatchRequestConfig::Limit(0), BatchRequestConfig::Limit(1), BatchRequestConfig::Limit(2)];

pub fn check(rep: &Reporter) {
	let thorough = rep.tier.thorough();
	let maxlen = if thorough { 5 } else { 4 };
	// the subscribe entry is explored in a second sweep (it is the only entry kind with a known finding) to keep the first complete
	let n_main = ENTRIES.len() - 1;
	rep.set_rule(&format!(
		"all arrays of length 0..{maxlen} over 14 entry kinds (valid calls incl. a repeated id and one whose handler reads the request extensions, notification, unknown method, bad params, invalid objects with/without id, non-object, array-encoded request and array-encoded notification, unsubscribe call, async call, custom error) and all arrays of length ≤3 that contain a subscribe call, × batch config {{Unlimited, Disabled, Limit(0), Limit(1), Limit(2)}} × {{HTTP, WS}}; plus all arrays of length ≤2 × every config through Server::start over loopback TCP; plus structurally mutated batch texts; plus, for every entry kind, the entry alone vs. inside a batch (differential). Every frame of the WebSocket connection until close is collected, so a reply outside the array is observable. Distinct by (array text, config)."
	));
	rep.assume("batch entry order in the reply is not demanded (multiset comparison), as JSON-RPC allows any order");
	let n = seq_count(n_main, maxlen);
	let per_cfg: Vec<(BatchRequestConfig, srv::WsServer, srv::HttpSvc)> = Vec::new();
	drop(per_cfg);
	let total = n * CONFIGS.len();
	par_for(
		rep,
		total,
		16,
		|| {
			let rt = srv::rt();
			let servers: Vec<(srv::HttpSvc, srv::WsServer)> = {
				let _e = rt.enter();
				CONFIGS.iter().map(|c| (srv::http_service(srv::cfg_builder().set_batch_request_config(*c).build()), srv::ws_server(srv::cfg_builder().set_batch_request_config(*c).build()))).collect()
			};
			(rt, servers)
		},
		|i, (rt, servers), local| {
			let ci = i % CONFIGS.len();
			let seq = seq_decode(i / CONFIGS.len(), n_main, maxlen);
			let text = format!("[{}]", seq.iter().map(|k| ENTRIES[*k]).collect::<Vec<_>>().join(","));
			let _e = rt.enter();
			let (http, ws) = &mut servers[ci];
			run_case(rep, local, rt, http, ws, "batch", text.as_bytes(), CONFIGS[ci], "");
		},
	);
	// SRV-TCP leg: all arrays of length ≤ 2 under every batch configuration through Server::start over loopback sockets
	{
		let n2 = seq_count(n_main, 2);
		par_for(rep, n2 * CONFIGS.len(), 8, srv::rt, |i, rt, local| {
			let ci = i % CONFIGS.len();
			let seq = seq_decode(i / CONFIGS.len(), n_main, 2);
			let text = format!("[{}]", seq.iter().map(|k| ENTRIES[*k]).collect::<Vec<_>>().join(","));
			let _e = rt.enter();
			super::c01::tcp_case(rep, local, rt, "tcp-batch", text.as_bytes(), CONFIGS[ci], false);
			super::c01::h2_case(rep, local, rt, "tcp-batch", text.as_bytes(), CONFIGS[ci]);
			if ci == 0 {
				// batches go through RpcServiceT::batch of every middleware: once more behind the RPC logger
				super::c01::tcp_case(rep, local, rt, "tcp-batch", text.as_bytes(), CONFIGS[ci], true);
			}
		});
	}
	// arrays containing the subscribe entry (WS: the subscription must be answered inside the array only)
	let sub = ENTRIES.len() - 1;
	let others = [0usize, 1, 3, 7];
	let mut sub_cases: Vec<String> = Vec::new();
	for len in 1..=3usize {
		for pos in 0..len {
			let combos = others.len().pow((len - 1) as u32);
			for c in 0..combos {
				let mut x = c;
				let mut parts = Vec::new();
				for k in 0..len {
					if k == pos {
						parts.push(ENTRIES[sub]);
					} else {
						parts.push(ENTRIES[others[x % others.len()]]);
						x /= others.len();
					}
				}
				sub_cases.push(format!("[{}]", parts.join(",")));
			}
		}
	}
	sub_cases.push(format!("[{},{}]", ENTRIES[sub], ENTRIES[sub]));
	par_for(rep, sub_cases.len(), 4, || (srv::rt(), srv::http_service(srv::cfg_builder().build()), srv::ws_server(srv::cfg_builder().build())), |i, (rt, http, ws), local| {
		let _e = rt.enter();
		run_case(rep, local, rt, http, ws, "batch-with-subscribe", sub_cases[i].as_bytes(), BatchRequestConfig::Unlimited, "");
	});
	// differential: each valid-call entry alone vs. inside a batch gets the same reply object
	{
		let rt = srv::rt();
		let _e = rt.enter();
		let mut http = srv::http_service(srv::cfg_builder().build());
		let ws = srv::ws_server(srv::cfg_builder().build());
		let mut local = crate::report::Local::default();
		for (k, e) in ENTRIES.iter().enumerate() {
			if !matches!(srvref::expect(e.as_bytes(), Transport::Ws, BatchRequestConfig::Unlimited), Expect::One(ref r) if r.handler.is_some() && k != sub) {
				continue;
			}
			for other in [0usize, 1, 7] {
				let batch = format!("[{},{}]", ENTRIES[other], e);
				for t in [Transport::Http, Transport::Ws] {
					let alone = match t {
						Transport::Http => rt.block_on(srvref::http_roundtrip(&mut http, e.as_bytes())),
						Transport::Ws => rt.block_on(srvref::ws_roundtrip(&ws, e.as_bytes())),
					};
					let inb = match t {
						Transport::Http => rt.block_on(srvref::http_roundtrip(&mut http, batch.as_bytes())),
						Transport::Ws => rt.block_on(srvref::ws_roundtrip(&ws, batch.as_bytes())),
					};
					let a: Option<serde_json::Value> = alone.replies.first().and_then(|r| serde_json::from_slice(r).ok());
					let b: Option<Vec<serde_json::Value>> = inb.replies.first().and_then(|r| serde_json::from_slice(r).ok());
					let found = match (&a, &b) {
						(Some(a), Some(b)) => b.iter().any(|x| x == a),
						_ => false,
					};
					if !found {
						rep.violation(
							"entry-alone-vs-in-batch",
							&format!("{t:?}: entry {e} alone is answered {a:?} but inside {batch} the array is {b:?}"),
							json!({"engine":"ENUM","entry": e, "batch": batch, "hex": hex(batch.as_bytes())}),
						);
					}
					local.case_unique("alone-vs-batch");
				}
			}
		}
		rep.merge(local);
	}
}
