//! C10 — graceful stop answers received calls and reports stopped only when done (SCHED on SRV-MEM ws+http).

use super::c04::{mask_all_server, mask_harness_only};
use crate::report::Reporter;
use crate::sched::{self, Scenario, Status, Verdict};
use crate::smem::{self, Conn, HStep, HttpAct, PeerAct, SrvCfg, SrvState};
use serde_json::{Value, json};
use std::time::Duration;

pub struct StopScenario {
	pub name: String,
	pub conns: Vec<Conn>,
	pub scripts: Vec<Vec<HStep>>,
	pub stop_twice: bool,
	pub drop_handles: bool,
	pub slow_steps: usize,
	pub mask: fn(&str) -> bool,
	/// SRV-TCP: the real `Server::start` (accept loop) over loopback sockets
	pub tcp: bool,
}

impl Scenario for StopScenario {
	type State = SrvState;
	fn name(&self) -> String {
		format!("{}/stop:{}", if self.tcp { "srv_tcp" } else { "srv_mem" }, self.name)
	}
	fn config(&self) -> Value {
		json!({"connections": format!("{:?}", self.conns), "handler_scripts": format!("{:?}", self.scripts), "stop_twice": self.stop_twice, "drop_handles_instead_of_stop": self.drop_handles, "slow_handler_steps": self.slow_steps})
	}
	fn mask(&self) -> fn(&str) -> bool {
		self.mask
	}
	fn max_steps(&self) -> usize {
		300
	}
	fn needs_io(&self) -> bool {
		self.tcp
	}
	fn once_labels(&self) -> &'static [&'static str] {
		// "writer-held-once": the connection's writer is held back before its first message only; afterwards it runs
		// without yielding between messages, as it does when socket writes complete at once
		if self.name.contains("writer-held-once") { &["server:ws:send_task:before_send"] } else { &[] }
	}
	fn tolerate_divergence(&self) -> bool {
		self.tcp
	}
	fn setup(&self) -> SrvState {
		smem::setup(&SrvCfg {
			tcp: self.tcp,
			conns: self.conns.clone(),
			scripts: self.scripts.clone(),
			stop: !self.drop_handles,
			stop_twice: self.stop_twice,
			drop_handles: self.drop_handles,
			slow_steps: self.slow_steps,
			buffer: if self.name.contains("buffer1") { 1 } else { 16 },
			max_req: if self.name.contains("oversized") { 256 } else { 0 },
			low_ws: self.name.starts_with("low-level:"),
			..Default::default()
		})
	}
	fn judge(&self, st: SrvState, trace: &[String], panics: &[String], status: Status) -> Verdict {
		let mut v = monitor(trace, &self.conns);
		if self.tcp {
			// over kernel sockets the peer's read may be observed after stopped() although the bytes were handed to
			// the socket before; only the clauses that do not depend on that order are judged on this leg
			v.retain(|(sig, _)| !sig.starts_with("answer-after-stopped") && !sig.starts_with("transport-write-after-stopped"));
		}
		if status != Status::Quiescent {
			v.push((format!("machinery:{status:?}"), format!("{status:?}")));
		}
		for p in panics {
			v.push(("panic".into(), p.clone()));
		}
		let done = st.serve_done.lock().unwrap().clone();
		let stop_requested = trace.iter().any(|l| l.starts_with("stop:called:") || l == "handles:dropped");
		if stop_requested {
			if !self.drop_handles && !trace.iter().any(|l| l == "stopped:resolved") {
				v.push(("stopped-never-resolves".into(), "stop was requested but stopped() has not resolved at quiescence (some connection task never finishes)".into()));
			}
			for (c, d) in done.iter().enumerate() {
				if !d && !self.tcp {
					v.push(("connection-task-alive-after-stop".into(), format!("connection {c}: the serve future is still running at quiescence after stop")));
				}
			}
		}
		let outcome: Vec<&String> = trace.iter().filter(|l| l.contains(":rx:") || l.starts_with("slow:") || l.starts_with("stop") || l.contains("eof") || l.starts_with("handles")).collect();
		Verdict { violations: v, outcome: format!("{outcome:?}") }
	}
}

pub fn monitor(trace: &[String], conns: &[Conn]) -> Vec<(String, String)> {
	let mut v: Vec<(String, String)> = Vec::new();
	let stopped_at = trace.iter().position(|l| l == "stopped:resolved");
	let stop_at = trace.iter().position(|l| l.starts_with("stop:called:") || l == "handles:dropped");
	// (1) every started call is answered unless its peer went away
	for (i, l) in trace.iter().enumerate() {
		let Some(rest) = l.strip_prefix("slow:") else { continue };
		let parts: Vec<&str> = rest.split(':').collect();
		if parts.len() < 3 || parts[2] != "start" {
			continue;
		}
		let c: usize = parts[0].parse().unwrap_or(99);
		let tag = parts[1];
		let kind = match conns.get(c) {
			Some(Conn::Http(_)) => "http",
			_ => "ws",
		};
		let peer_left = trace.iter().any(|x| *x == format!("c{c}:tx:CLOSE") || *x == format!("c{c}:tx:DROP"));
		let answered = trace.iter().position(|x| {
			x.strip_prefix(&format!("c{c}:rx:")).map_or(false, |t| {
				let body = if kind == "http" { t.splitn(2, ':').nth(1).unwrap_or("") } else { t };
				serde_json::from_str::<Value>(body).map_or(false, |m| m["id"] == format!("c{tag}") && m["result"] == tag.parse::<u64>().unwrap_or(0))
			})
		});
		if !peer_left {
			match answered {
				None => {
					let when = match stop_at {
						Some(s) if s < i => "started-after-stop-was-called",
						Some(_) => "started-before-stop",
						None => "no-stop",
					};
					v.push((format!("started-call-not-answered:{kind}:{when}"), format!("connection {c} ({kind}): the handler of call {tag} started (trace position {i}) but the peer, which stayed connected, never received its answer")));
				}
				Some(a) => {
					if let Some(s) = stopped_at {
						if a > s {
							v.push((format!("answer-after-stopped:{kind}"), format!("connection {c} ({kind}): the answer to call {tag} reached the peer at position {a}, after stopped() resolved at {s}")));
						}
					}
				}
			}
		}
		// the handler must have been allowed to finish (unless its client went away)
		if !peer_left && !trace.iter().any(|x| *x == format!("slow:{c}:{tag}:finish")) {
			v.push((format!("started-call-not-completed:{kind}"), format!("connection {c} ({kind}): the handler of call {tag} started but was dropped before it finished")));
		}
	}
	// (1b) a subscribe call is a call too: once its handler has started and has been allowed to run its accept()/reject(),
	//      the peer (if it stayed) receives the answer
	for (i, l) in trace.iter().enumerate() {
		let Some(rest) = l.strip_prefix("h:") else { continue };
		let Some(tag_end) = rest.rfind(":script:") else { continue };
		let tag = format!("h:{}", &rest[..tag_end]);
		let Ok(script_idx) = rest[tag_end + 8..].parse::<u64>() else { continue };
		let c: usize = rest.split(':').next().and_then(|x| x.parse().ok()).unwrap_or(99);
		let released = trace.iter().any(|x| *x == format!(">{tag}:0:Accept") || *x == format!(">{tag}:0:Reject"));
		if !released {
			continue;
		}
		let peer_left = trace.iter().any(|x| *x == format!("c{c}:tx:CLOSE") || *x == format!("c{c}:tx:DROP") || *x == format!("c{c}:stops-reading"));
		// the request id of the subscribe call that carries this script index
		let req_id = trace.iter().filter_map(|x| x.strip_prefix(&format!("c{c}:tx:"))).filter_map(|t| serde_json::from_str::<Value>(t).ok()).find(|m| m["method"] == "sub" && m["params"] == serde_json::json!([script_idx])).map(|m| m["id"].clone());
		let Some(req_id) = req_id else { continue };
		let answered = trace.iter().position(|x| x.strip_prefix(&format!("c{c}:rx:")).and_then(|t| serde_json::from_str::<Value>(t).ok()).map_or(false, |m| m["id"] == req_id));
		if !peer_left {
			match answered {
				None => v.push(("started-subscribe-call-not-answered:ws".into(), format!("connection {c}: the handler of the subscribe call {req_id} started (position {i}) and ran its accept()/reject(), but the peer, which stayed connected, never received the answer"))),
				Some(a) => {
					if let Some(s) = stopped_at {
						if a > s {
							v.push(("answer-after-stopped:ws:subscribe".into(), format!("connection {c}: the answer to subscribe call {req_id} reached the peer at position {a}, after stopped() resolved at {s}")));
						}
					}
				}
			}
		}
	}
	if let Some(s) = stopped_at {
		for (i, l) in trace.iter().enumerate().skip(s + 1) {
			// (2) nothing is handed to a transport after stopped() resolved
			if l.contains(":srv-write:") {
				v.push(("transport-write-after-stopped".into(), format!("{l} at position {i}, after stopped() resolved at {s}: an answer was not yet handed to its transport when stopped() resolved")));
				break;
			}
		}
		for (i, l) in trace.iter().enumerate().skip(s + 1) {
			// (3) no call first sent after stopped() is executed
			if (l.starts_with("slow:") && l.ends_with(":start")) || l == "call:add" {
				// was the request sent after stopped?
				v.push(("call-executed-after-stopped".into(), format!("{l} at position {i}: a handler started after stopped() resolved at {s}")));
				break;
			}
		}
	}
	v
}

/// harness points plus the connection writer's point (the writer can be held back while replies queue up)
fn mask_send_task(l: &str) -> bool {
	!l.starts_with("client:") && (!l.starts_with("server:") || l == "server:ws:send_task:before_send" || l == "server:ws:graceful_shutdown:enter")
}

pub fn scenarios(thorough: bool) -> Vec<StopScenario> {
	use HStep::*;
	let ws = |a: Vec<PeerAct>| Conn::Ws(a);
	let http = |a: Vec<HttpAct>| Conn::Http(a);
	let mut v = Vec::new();
	let mut add = |name: &str, conns: Vec<Conn>, scripts: Vec<Vec<HStep>>, twice: bool, drop_handles: bool, steps: usize, mask: fn(&str) -> bool| {
		v.push(StopScenario { name: name.to_string(), conns, scripts, stop_twice: twice, drop_handles, slow_steps: steps, mask, tcp: false });
	};
	add("no-connections", vec![], vec![], false, false, 1, mask_harness_only);
	add("no-connections-stop-twice", vec![], vec![], true, false, 1, mask_harness_only);
	add("ws-slow-call", vec![ws(vec![PeerAct::SlowCall])], vec![], false, false, 2, mask_harness_only);
	add("ws-slow-call-server-points", vec![ws(vec![PeerAct::SlowCall])], vec![], false, false, 1, mask_all_server);
	add("ws-two-calls", vec![ws(vec![PeerAct::SlowCall, PeerAct::Call])], vec![], false, false, 1, mask_harness_only);
	add("ws-slow-call-stop-twice", vec![ws(vec![PeerAct::SlowCall])], vec![], true, false, 1, mask_harness_only);
	add("ws-slow-call-drop-handles", vec![ws(vec![PeerAct::SlowCall])], vec![], false, true, 1, mask_harness_only);
	add("http-slow-call", vec![http(vec![HttpAct::SlowCall])], vec![], false, false, 2, mask_harness_only);
	add("http-two-calls-keepalive", vec![http(vec![HttpAct::SlowCall, HttpAct::Call])], vec![], false, false, 1, mask_harness_only);
	add("ws-and-http", vec![ws(vec![PeerAct::SlowCall]), http(vec![HttpAct::SlowCall])], vec![], false, false, 1, mask_harness_only);
	add("ws-subscription-open", vec![ws(vec![PeerAct::Subscribe(0), PeerAct::SlowCall])], vec![vec![Accept, Send]], false, false, 1, mask_harness_only);
	add("ws-peer-closes-during-stop", vec![ws(vec![PeerAct::SlowCall, PeerAct::CloseFrame])], vec![], false, false, 1, mask_harness_only);
	add("ws-peer-drops-during-stop", vec![ws(vec![PeerAct::SlowCall, PeerAct::Drop])], vec![], false, false, 1, mask_harness_only);
	add("http-peer-drops-during-stop", vec![http(vec![HttpAct::CallThenDrop])], vec![], false, false, 1, mask_harness_only);
	add("ws-idle-connection", vec![ws(vec![])], vec![], false, false, 1, mask_harness_only);
	// control frames from the peer while the server waits for pending calls: they are not a disconnect
	add("ws-peer-pongs-during-stop", vec![ws(vec![PeerAct::SlowCall, PeerAct::Pong])], vec![], false, false, 1, mask_harness_only);
	add("ws-peer-pings-during-stop", vec![ws(vec![PeerAct::SlowCall, PeerAct::Ping, PeerAct::Call])], vec![], false, false, 1, mask_harness_only);
	// the peer sends a frame above max_request_body_size while the server waits for the pending call: that is not a disconnect
	add("ws-peer-sends-oversized-frame-during-stop", vec![ws(vec![PeerAct::SlowCall, PeerAct::Oversized(257)])], vec![], false, false, 1, mask_harness_only);
	add("ws-peer-sends-oversized-frame-and-call-during-stop", vec![ws(vec![PeerAct::SlowCall, PeerAct::Oversized(5000), PeerAct::Call])], vec![], false, false, 1, mask_harness_only);
	// the low-level assembly: ws::connect / http::call_with_service_builder called from an application-made service
	add("low-level:ws-slow-call", vec![ws(vec![PeerAct::SlowCall])], vec![], false, false, 1, mask_harness_only);
	add("low-level:ws-and-http", vec![ws(vec![PeerAct::SlowCall, PeerAct::Call]), http(vec![HttpAct::SlowCall])], vec![], false, false, 1, mask_harness_only);
	add("low-level:ws-peer-sends-oversized-frame-during-stop", vec![ws(vec![PeerAct::SlowCall, PeerAct::Oversized(300)])], vec![], false, false, 1, mask_harness_only);
	// a subscribe call in flight at stop while the connection's outgoing buffer (capacity 1) is full and the writer is held back
	for (how, script) in [("accept", vec![Accept]), ("reject", vec![Reject])] {
		add(&format!("ws-subscribe-{how}-in-flight-buffer1-writer-point"), vec![ws(vec![PeerAct::Call, PeerAct::Call, PeerAct::Subscribe(0)])], vec![script.clone()], false, false, 1, mask_send_task);
		add(&format!("ws-subscribe-{how}-in-flight-buffer1-writer-held-once"), vec![ws(vec![PeerAct::Call, PeerAct::Call, PeerAct::Subscribe(0)])], vec![script], false, false, 1, mask_send_task);
	}
	add("ws-slow-call-buffer1-writer-held-once", vec![ws(vec![PeerAct::Call, PeerAct::Call, PeerAct::SlowCall])], vec![], false, false, 1, mask_send_task);
	add("two-ws", vec![ws(vec![PeerAct::SlowCall]), ws(vec![PeerAct::SlowCall, PeerAct::Call])], vec![], false, false, 1, mask_harness_only);
	add("ws-two-calls-server-points", vec![ws(vec![PeerAct::SlowCall, PeerAct::SlowCall])], vec![], false, false, 1, mask_all_server);
	add("two-ws-one-http", vec![ws(vec![PeerAct::SlowCall]), ws(vec![PeerAct::Subscribe(0)]), http(vec![HttpAct::SlowCall])], vec![vec![Accept, Send, Send]], true, false, 1, mask_harness_only);
	if thorough {
		add("ws-subscribe-accept-in-flight-buffer1-server-points", vec![ws(vec![PeerAct::Call, PeerAct::Call, PeerAct::Subscribe(0)])], vec![vec![Accept]], false, false, 1, mask_all_server);
		add("ws-slow-call-2-steps-server-points", vec![ws(vec![PeerAct::SlowCall])], vec![], false, false, 2, mask_all_server);
		add("ws-three-calls", vec![ws(vec![PeerAct::SlowCall, PeerAct::SlowCall, PeerAct::Call])], vec![], false, false, 1, mask_harness_only);
		add("ws-and-http-server-points", vec![ws(vec![PeerAct::SlowCall]), http(vec![HttpAct::SlowCall])], vec![], false, false, 1, mask_all_server);
		add("three-ws-stop-twice", vec![ws(vec![PeerAct::SlowCall]), ws(vec![PeerAct::SlowCall]), ws(vec![PeerAct::Call, PeerAct::CloseFrame])], vec![], true, false, 1, mask_harness_only);
		add("ws-subscription-unsubscribe-during-stop", vec![ws(vec![PeerAct::Subscribe(0), PeerAct::SlowCall, PeerAct::Unsub(0)])], vec![vec![Accept, Send, Send]], false, false, 1, mask_harness_only);
		add("http-three-keepalive-calls", vec![http(vec![HttpAct::SlowCall, HttpAct::SlowCall, HttpAct::Call])], vec![], false, false, 1, mask_harness_only);
		add("two-http-one-ws-drop-handles", vec![http(vec![HttpAct::SlowCall]), http(vec![HttpAct::SlowCall, HttpAct::Call]), ws(vec![PeerAct::SlowCall])], vec![], false, true, 1, mask_harness_only);
		add("two-ws-server-points", vec![ws(vec![PeerAct::SlowCall]), ws(vec![PeerAct::SlowCall])], vec![], false, false, 1, mask_all_server);
		add("ws-subscription-open-server-points", vec![ws(vec![PeerAct::Subscribe(0), PeerAct::SlowCall])], vec![vec![Accept, Send]], false, false, 1, mask_all_server);
		add("ws-peer-closes-during-stop-server-points", vec![ws(vec![PeerAct::SlowCall, PeerAct::CloseFrame])], vec![], false, false, 1, mask_all_server);
		add("ws-peer-pongs-during-stop-server-points", vec![ws(vec![PeerAct::SlowCall, PeerAct::Pong])], vec![], false, false, 1, mask_all_server);
		add("ws-pong-and-close-during-stop", vec![ws(vec![PeerAct::SlowCall, PeerAct::Pong, PeerAct::CloseFrame])], vec![], false, false, 1, mask_harness_only);
	}
	// SRV-TCP legs: the same histories against Server::start over loopback sockets (accept loop + process_connection)
	let mut tcp = vec![
		("ws-slow-call", vec![Conn::Ws(vec![PeerAct::SlowCall])], false, false),
		("http-slow-call", vec![Conn::Http(vec![HttpAct::SlowCall])], false, false),
		("ws-and-http", vec![Conn::Ws(vec![PeerAct::SlowCall]), Conn::Http(vec![HttpAct::SlowCall])], false, false),
		("no-connections-stop-twice", vec![], true, false),
		("ws-slow-call-drop-handles", vec![Conn::Ws(vec![PeerAct::SlowCall])], false, true),
	];
	tcp.push(("ws-two-calls-http-keepalive", vec![Conn::Ws(vec![PeerAct::SlowCall, PeerAct::Call]), Conn::Http(vec![HttpAct::SlowCall, HttpAct::Call])], true, false));
	if thorough {
		tcp.push(("two-ws", vec![Conn::Ws(vec![PeerAct::SlowCall]), Conn::Ws(vec![PeerAct::SlowCall, PeerAct::Call])], false, false));
		tcp.push(("ws-peer-pongs-during-stop", vec![Conn::Ws(vec![PeerAct::SlowCall, PeerAct::Pong])], false, false));
	}
	for (name, conns, twice, drop_handles) in tcp {
		v.push(StopScenario { name: name.to_string(), conns, scripts: vec![], stop_twice: twice, drop_handles, slow_steps: 1, mask: mask_harness_only, tcp: true });
	}
	v
}

pub fn check(rep: &Reporter) {
	let thorough = rep.tier.thorough();
	rep.set_rule(
		"0–3 connections (WebSocket and keep-alive HTTP/1.1, raw peers over in-memory duplexes) with calls to a handler that parks at scheduling points, optional open subscription; stop() (or dropping every ServerHandle) is its own scheduling point and therefore lands at every position: before the call bytes are sent, sent but unread, handler started, handler finished but reply unwritten, reply written; second stop(), peer close/drop, unsolicited Pong/Ping frames and a frame above max_request_body_size racing the stop; per scenario also the library's cfg points in the WebSocket tasks. Monitor: every call (incl. subscribe calls whose handler ran accept()/reject()) whose handler started and whose peer stayed is answered, the handler ran to completion, no transport write and no handler start after stopped() resolved, stopped() resolves and every serve future ends.",
	);
	rep.assume("'handed to the transport' is observed as a write on the server half of the duplex (logged by a pass-through wrapper)");
	rep.assume("SRV-TCP legs (Server::start over loopback sockets): quiescence = the runtime polled nothing but the driver for 4 consecutive rounds; the order 'answer read by the peer' vs 'stopped() resolved' is not judged there; every schedule is re-executed and a divergence is counted as inconclusive");
	for s in scenarios(thorough) {
		// on the kernel-socket legs every schedule is executed twice and compared
		let recheck = if s.tcp { 1 } else if thorough { 10 } else { 50 };
		sched::explore_auto(&s, rep, if thorough { 400_000 } else { 15_000 }, if thorough { 3 } else { 2 }, recheck, Duration::from_secs(if thorough { 300 } else { 6 }));
	}
}

pub fn dyn_scenarios() -> Vec<Box<dyn sched::DynScenario>> {
	let mut v: Vec<Box<dyn sched::DynScenario>> = Vec::new();
	for s in scenarios(true) {
		v.push(Box::new(s));
	}
	v
}
