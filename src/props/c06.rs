//! C06 — subscription bookkeeping is exact and respects the per-connection cap (SCHED on SRV-MEM ws, interval-rule monitor).

use super::c04::{SubsScenario, mask_harness_only, mask_sub_points};
use crate::report::Reporter;
use crate::sched::{self, Scenario, Status, Verdict};
use crate::smem::{Conn, HStep, PeerAct, SrvCfg, SrvState};
use serde_json::{Value, json};
use std::collections::HashMap;
use std::time::Duration;

pub struct BookScenario(pub SubsScenario);

impl Scenario for BookScenario {
	type State = SrvState;
	fn name(&self) -> String {
		format!("srv_mem/bookkeeping:{}", self.0.name)
	}
	fn config(&self) -> Value {
		let mut c = self.0.config();
		c["max_subscriptions_per_connection"] = json!(self.0.max_subs);
		c
	}
	fn mask(&self) -> fn(&str) -> bool {
		self.0.mask
	}
	fn max_steps(&self) -> usize {
		300
	}
	fn setup(&self) -> SrvState {
		self.0.setup()
	}
	fn judge(&self, _st: SrvState, trace: &[String], panics: &[String], status: Status) -> Verdict {
		let mut v = monitor(trace, self.0.conns.len(), self.0.max_subs as usize, self.0.max_resp > 0);
		if status != Status::Quiescent {
			v.push((format!("machinery:{status:?}"), format!("{status:?}")));
		}
		for p in panics {
			// accept() documents a panic when its answer exceeds max_response_body_size (the peer is told -32008 first)
			if self.0.max_resp > 0 && p.contains("The subscription response was too big") {
				continue;
			}
			v.push(("panic".into(), p.clone()));
		}
		let outcome: Vec<&String> = trace.iter().filter(|l| l.contains(":rx:") || l.contains("is_closed") || l.contains("eof")).collect();
		Verdict { violations: v, outcome: format!("{outcome:?}") }
	}
}

#[derive(Default, Debug, Clone)]
struct SubLife {
	conn: usize,
	start: usize,
	accept: Option<usize>,
	/// the handler holds no sink any more (returned, rejected, dropped the pending sink, dropped every handle)
	released: Option<usize>,
	/// handles currently held (after accept)
	handles: Vec<bool>,
	/// which handler script (= the subscribe call's first parameter)
	script: Option<u64>,
}

/// Is `x` inside [a, b] for some position where pred holds?  `changes` = sorted positions with value after each.
fn value_in_interval(timeline: &[(usize, bool)], a: usize, b: usize) -> (bool, bool) {
	// returns (can_be_true, can_be_false) over positions a..=b
	let mut cur = false;
	let mut t = false;
	let mut f = false;
	let mut idx = 0;
	// value at position a
	while idx < timeline.len() && timeline[idx].0 <= a {
		cur = timeline[idx].1;
		idx += 1;
	}
	if cur { t = true } else { f = true }
	while idx < timeline.len() && timeline[idx].0 <= b {
		cur = timeline[idx].1;
		if cur { t = true } else { f = true }
		idx += 1;
	}
	(t, f)
}

pub fn monitor(trace: &[String], nconns: usize, cap: usize, oversized_accept: bool) -> Vec<(String, String)> {
	let mut v: Vec<(String, String)> = Vec::new();
	// ---- subscription lifecycles from the handler log
	let mut subs: HashMap<(usize, String), SubLife> = HashMap::new();
	for (i, l) in trace.iter().enumerate() {
		let Some(rest) = l.strip_prefix("h:") else { continue };
		let parts: Vec<&str> = rest.splitn(3, ':').collect();
		if parts.len() < 3 {
			continue;
		}
		let Ok(c) = parts[0].parse::<usize>() else { continue };
		let key = (c, parts[1].to_string());
		let ev = parts[2];
		let e = subs.entry(key).or_insert_with(|| SubLife { conn: c, start: i, ..Default::default() });
		if ev == "start" {
			e.start = i;
		} else if let Some(k) = ev.strip_prefix("script:") {
			e.script = k.parse().ok();
		} else if ev == "accept:ok" {
			e.accept = Some(i);
			e.handles.push(true);
		} else if ev == "clone" {
			e.handles.push(true);
		} else if let Some(k) = ev.strip_prefix("drop-sink:") {
			if let Ok(k) = k.parse::<usize>() {
				if let Some(h) = e.handles.get_mut(k) {
					*h = false;
				}
				if e.handles.iter().all(|h| !*h) {
					e.released.get_or_insert(i);
				}
			}
		} else if ev.starts_with("return:") || ev == "reject" || ev == "drop-pending" || ev == "accept:err" || ev == "accept:cancelled" || ev == "gone" {
			e.released.get_or_insert(i);
		}
	}
	// ---- connection ends
	let conn_end: Vec<Option<usize>> = (0..nconns).map(|c| trace.iter().position(|l| *l == format!("c{c}:session-closed"))).collect();
	// ---- requests and responses per connection
	struct Req {
		conn: usize,
		tx: usize,
		rx: Option<usize>,
		method: String,
		params: Value,
		resp: Option<Value>,
	}
	let mut reqs: Vec<Req> = Vec::new();
	for (i, l) in trace.iter().enumerate() {
		for c in 0..nconns {
			if let Some(t) = l.strip_prefix(&format!("c{c}:tx:")) {
				if let Ok(m) = serde_json::from_str::<Value>(t) {
					if m.get("id").is_some() {
						reqs.push(Req { conn: c, tx: i, rx: None, method: m["method"].as_str().unwrap_or("").to_string(), params: m["params"].clone(), resp: None });
					}
				}
			}
			if let Some(t) = l.strip_prefix(&format!("c{c}:rx:")) {
				if let Ok(m) = serde_json::from_str::<Value>(t) {
					if let Some(id) = m.get("id") {
						// match to the request with that id on this connection
						let idx = {
							let mut found = None;
							for (k, r) in reqs.iter().enumerate() {
								if r.conn == c && r.rx.is_none() {
									let sent: Value = serde_json::from_str(trace[r.tx].strip_prefix(&format!("c{c}:tx:")).unwrap()).unwrap();
									if sent["id"] == *id {
										found = Some(k);
										break;
									}
								}
							}
							found
						};
						if let Some(k) = idx {
							reqs[k].rx = Some(i);
							reqs[k].resp = Some(m.clone());
						}
					}
				}
			}
		}
	}
	// ---- unsubscribe effects: a `true` answer ends the subscription somewhere in [tx, rx]
	// unsub_true[(conn, sid)] = (tx, rx) of the first unsubscribe answered true
	let mut unsub_true: HashMap<(usize, String), (usize, usize)> = HashMap::new();
	for r in &reqs {
		if r.method == "unsub" {
			if let (Some(rx), Some(resp)) = (r.rx, &r.resp) {
				if resp["result"] == true {
					if let Some(p) = r.params.get(0) {
						unsub_true.entry((r.conn, p.to_string())).or_insert((r.tx, rx));
					}
				}
			}
		}
	}
	// active(S) timelines under the two extreme placements of the unsubscribe effect (earliest = at tx, latest = at rx)
	let timeline = |key: &(usize, String), unsub_at: Option<usize>| -> Vec<(usize, bool)> {
		let mut t: Vec<(usize, bool)> = Vec::new();
		if let Some(s) = subs.get(key) {
			if let Some(a) = s.accept {
				t.push((a, true));
				let mut ends: Vec<usize> = Vec::new();
				if let Some(r) = s.released {
					ends.push(r);
				}
				if let Some(Some(e)) = conn_end.get(s.conn) {
					ends.push(*e);
				}
				if let Some(u) = unsub_at {
					ends.push(u);
				}
				if let Some(e) = ends.into_iter().filter(|e| *e > a).min() {
					t.push((e, false));
				}
			}
		}
		t
	};
	// ---- check every unsubscribe answer (interval rule)
	for r in &reqs {
		if r.method != "unsub" {
			continue;
		}
		let (Some(rx), Some(resp)) = (r.rx, &r.resp) else { continue };
		let Some(result) = resp.get("result").and_then(|x| x.as_bool()) else {
			v.push(("unsubscribe:not-a-bool".into(), format!("unsubscribe on connection {} answered {resp}", r.conn)));
			continue;
		};
		let sid = r.params.get(0).map(|p| p.to_string());
		let key = sid.clone().map(|s| (r.conn, s));
		let kind = match &key {
			Some(k) if subs.contains_key(k) => "own",
			Some((_, s)) if subs.keys().any(|(_, s2)| s2 == s) => "other-connection",
			Some(_) => "unknown-id",
			None => "malformed-params",
		};
		let (can_true, can_false) = match &key {
			Some(k) if subs.contains_key(k) => {
				// the effect of *this* unsubscribe is what it reports; effects of other true-answered unsubscribes on the same
				// subscription may fall anywhere in their own interval
				let other = unsub_true.get(k).filter(|(tx, _)| *tx != r.tx);
				let early = timeline(k, other.map(|(tx, _)| *tx));
				let late = timeline(k, other.map(|(_, rx)| *rx));
				let a = value_in_interval(&early, r.tx, rx);
				let b = value_in_interval(&late, r.tx, rx);
				(a.0 || b.0, a.1 || b.1)
			}
			_ => (false, true),
		};
		if result && !can_true {
			v.push((format!("unsubscribe:true-for-inactive:{kind}"), format!("connection {}: unsubscribe {} answered true although that subscription was not active on this connection at any moment between request and answer", r.conn, r.params)));
		}
		if !result && !can_false {
			v.push((format!("unsubscribe:false-for-active:{kind}"), format!("connection {}: unsubscribe {} answered false although the subscription was active during the whole interval between request (pos {}) and answer (pos {rx})", r.conn, r.params, r.tx)));
		}
	}
	// ---- slots: pending or accepted-and-still-held subscriptions per connection
	let slot_timeline = |c: usize| -> Vec<(usize, i64)> {
		let mut ev: Vec<(usize, i64)> = Vec::new();
		for s in subs.values().filter(|s| s.conn == c) {
			ev.push((s.start, 1));
			if let Some(r) = s.released {
				ev.push((r, -1));
			}
		}
		ev.sort();
		ev
	};
	for c in 0..nconns {
		let ev = slot_timeline(c);
		let mut cur = 0i64;
		for (p, d) in &ev {
			cur += d;
			if cur > cap as i64 {
				v.push(("cap-exceeded".into(), format!("connection {c}: {cur} subscriptions (pending or held by their handlers) exist at trace position {p}, max_subscriptions_per_connection = {cap}")));
				break;
			}
		}
		// refusals must be justified, admissions too
		for r in reqs.iter().filter(|r| r.conn == c && r.method == "sub") {
			let (Some(rx), Some(resp)) = (r.rx, &r.resp) else { continue };
			let refused = resp["error"]["code"] == -32006;
			// a subscribe call may only fail with -32006 (connection full) or with what its handler did
			if let Some(code) = resp["error"]["code"].as_i64() {
				let script = r.params.get(0).and_then(|x| x.as_u64()).unwrap_or(0);
				// harness scripts: 2 = reject (error 4001), 3 = drop the pending sink (the library answers -32603)
				// with max_response_body_size below the size of the accept() answer the peer is told -32008 instead
				let allowed = code == -32006 || (script == 2 && code == 4001) || (script == 3 && code == -32603) || (oversized_accept && code == -32008);
				// the peer was told the subscribe failed: the handler's accept() cannot have produced a live sink
				if code != -32006 {
					if let Some(s) = subs.values().find(|s| s.conn == c && s.script == Some(script) && s.accept.is_some()) {
						let _ = s;
						v.push((format!("accept-succeeded-for-refused-subscribe:code{code}"), format!("connection {c}: the subscribe call (script {script}) was answered with error {code}, yet the handler's accept() returned a sink, so the subscription counts as active and holds its slot")));
					}
				}
				if !allowed {
					v.push((format!("subscribe-refused-with-wrong-code:cap{cap}"), format!("connection {c}: subscribe call answered with error {code} (expected -32006 when the connection is full); max_subscriptions_per_connection = {cap}")));
				}
			}
			if refused {
				// at some moment in [tx, rx] the connection must have been full
				let mut cur = 0i64;
				let mut full = false;
				let mut at_tx = 0i64;
				for (p, d) in &ev {
					if *p <= r.tx {
						at_tx += d;
					}
				}
				cur += at_tx;
				if cur >= cap as i64 {
					full = true;
				}
				for (p, d) in ev.iter().filter(|(p, _)| *p > r.tx && *p <= rx) {
					let _ = p;
					cur += d;
					if cur >= cap as i64 {
						full = true;
					}
				}
				if !full {
					v.push(("refused-although-slot-free".into(), format!("connection {c}: a subscribe call was refused with -32006 although fewer than {cap} subscriptions existed during the whole call (slots are not returned when a subscription ends?)")));
				}
			}
		}
	}
	// ---- is_closed() of held sinks == not active (exact unless an unsubscribe for it is in flight)
	for (i, l) in trace.iter().enumerate() {
		let Some(rest) = l.strip_prefix("h:") else { continue };
		let parts: Vec<&str> = rest.splitn(3, ':').collect();
		if parts.len() < 3 || !parts[2].starts_with("is_closed:") {
			continue;
		}
		let Ok(c) = parts[0].parse::<usize>() else { continue };
		let key = (c, parts[1].to_string());
		let reported_closed = parts[2].ends_with("true");
		let (early, late) = match unsub_true.get(&key) {
			Some((tx, rx)) => (timeline(&key, Some(*tx)), timeline(&key, Some(*rx))),
			None => (timeline(&key, None), timeline(&key, None)),
		};
		let a = value_in_interval(&early, i, i);
		let b = value_in_interval(&late, i, i);
		let can_active = a.0 || b.0;
		let can_inactive = a.1 || b.1;
		if reported_closed && !can_inactive {
			let clone = subs.get(&key).map_or(false, |s| s.handles.len() > 1);
			v.push((format!("is_closed-true-while-active{}", if clone { ":after-dropping-a-clone" } else { "" }), format!("handler {c}/{}: is_closed() is true at position {i} although the subscription is not unsubscribed, its connection is open and the handler still holds a sink", key.1)));
		}
		if !reported_closed && !can_active {
			v.push(("is_closed-false-while-inactive".into(), format!("handler {c}/{}: is_closed() is false at position {i} although the subscription has ended", key.1)));
		}
	}
	v
}

pub fn scenarios(thorough: bool) -> Vec<BookScenario> {
	use HStep::*;
	use PeerAct::*;
	let mut v: Vec<BookScenario> = Vec::new();
	let mut add = |name: String, conns: Vec<Vec<PeerAct>>, scripts: Vec<Vec<HStep>>, cap: u32, mask: fn(&str) -> bool| {
		let max_resp = if name.starts_with("oversized") { 100 } else { 0 };
		v.push(BookScenario(SubsScenario { name, conns, scripts, stop: false, mask, buffer: 16, max_subs: cap, max_resp }));
	};
	let hold = vec![Accept, IsClosed];
	let ret = vec![Accept, ReturnNone];
	let rej = vec![Reject, ReturnNone];
	let dropp = vec![DropPending, ReturnNone];
	let watch = vec![Accept, IsClosed, AwaitClosed, IsClosed, ReturnNone];
	let clone = vec![Accept, CloneSink, DropSink(0), IsClosed, SendVia(1), IsClosed];
	// the handler lets go of its only sink and goes on doing something else: the subscription is over, its slot is free
	let letgo = vec![Accept, DropSink(0), IsClosed, IsClosed, ReturnNone];
	let scripts = vec![hold.clone(), ret.clone(), rej.clone(), dropp.clone(), watch.clone(), clone.clone(), letgo.clone()];
	// unsubscribe variants on one connection
	for (mi, mask) in [mask_harness_only as fn(&str) -> bool, mask_sub_points].into_iter().enumerate() {
		for h in 0..scripts.len() {
			add(format!("unsub-own:h{h}:mask{mi}"), vec![vec![Subscribe(h), Unsub(0), Unsub(0)]], scripts.clone(), 2, mask);
		}
		add(format!("unsub-unknown-and-malformed:mask{mi}"), vec![vec![Subscribe(0), UnsubRaw(json!([999])), UnsubRaw(json!(["x"])), UnsubRaw(json!(["1"])), UnsubRaw(json!([1.0])), UnsubRaw(json!([[1]])), UnsubRaw(json!({})), UnsubRaw(json!([])), Unsub(0)]], scripts.clone(), 2, mask);
	}
	// the low-level assembly (ws::connect called from an application-made service): same bookkeeping, same cap
	for cap in 0..=2u32 {
		let mut peer = Vec::new();
		for _ in 0..=cap {
			peer.push(Subscribe(0));
		}
		peer.push(if cap > 0 { Unsub(0) } else { UnsubRaw(json!([999])) });
		peer.push(Subscribe(0));
		peer.push(Subscribe(0));
		add(format!("low-level:cap{cap}:h0"), vec![peer], scripts.clone(), cap, mask_harness_only);
	}
	add("low-level:unsub-own:h1".into(), vec![vec![Subscribe(1), Unsub(0), Unsub(0)]], scripts.clone(), 2, mask_harness_only);
	add("low-level:drop-race:h0".into(), vec![vec![Subscribe(0), Subscribe(0), Unsub(0), CloseFrame]], scripts.clone(), 2, mask_harness_only);
	// string subscription ids
	for h in [0usize, 1, 5] {
		add(format!("string-ids:unsub-own:h{h}"), vec![vec![Subscribe(h), Unsub(0), Unsub(0)]], scripts.clone(), 2, mask_harness_only);
	}
	add("string-ids:unsub-foreign".into(), vec![vec![Subscribe(0), UnsubForeign(1, 0), Unsub(0)], vec![Subscribe(0), UnsubForeign(0, 0)]], scripts.clone(), 2, mask_harness_only);
	add("string-ids:numeric-spelling-of-a-string-id".into(), vec![vec![Subscribe(0), UnsubRaw(json!([1])), UnsubRaw(json!(["1"])), Unsub(0)]], scripts.clone(), 2, mask_harness_only);
	// foreign ids across two connections
	add("unsub-foreign".into(), vec![vec![Subscribe(0), UnsubForeign(1, 0), Unsub(0)], vec![Subscribe(0), UnsubForeign(0, 0)]], scripts.clone(), 2, mask_harness_only);
	// caps
	for cap in 0..=2u32 {
		for h in 0..scripts.len() {
			if !thorough && cap == 2 && h > 2 {
				continue;
			}
			let mut peer = Vec::new();
			for _ in 0..=cap {
				peer.push(Subscribe(h));
			}
			if cap > 0 {
				peer.push(Unsub(0));
			} else {
				peer.push(UnsubRaw(json!([999])));
			}
			peer.push(Subscribe(h));
			peer.push(Subscribe(h));
			add(format!("cap{cap}:h{h}"), vec![peer], scripts.clone(), cap, mask_harness_only);
		}
	}
	// connection drop racing with everything
	for h in [0usize, 1, 4] {
		add(format!("drop-race:h{h}"), vec![vec![Subscribe(h), Subscribe(h), Unsub(0), CloseFrame]], scripts.clone(), 2, mask_harness_only);
		add(format!("drop-race-two-conns:h{h}"), vec![vec![Subscribe(h), Drop], vec![Subscribe(h), UnsubForeign(0, 0), Subscribe(h), Subscribe(h)]], scripts.clone(), 2, mask_harness_only);
	}
	// accept() answers larger than max_response_body_size: each subscribe is refused with -32008 and must give its slot back
	for cap in [1u32, 2] {
		for h in [0usize, 1, 5] {
			if !thorough && cap == 2 && h != 0 {
				continue;
			}
			// distinct scripts per call so that the monitor can tell the handlers apart
			let mut sc = scripts.clone();
			sc.push(scripts[h].clone());
			sc.push(scripts[h].clone());
			sc.push(scripts[h].clone());
			let n = scripts.len();
			add(format!("oversized-accept-answer:cap{cap}:h{h}"), vec![vec![Subscribe(n), Subscribe(n + 1), Subscribe(n + 2)]], sc, cap, mask_harness_only);
		}
	}
	if thorough {
		add("mixed-endings:cap2".into(), vec![vec![Subscribe(1), Subscribe(2), Subscribe(3), Subscribe(0), Unsub(3), Subscribe(0), Subscribe(0)]], scripts.clone(), 2, mask_sub_points);
	}
	v
}

pub fn check(rep: &Reporter) {
	let thorough = rep.tier.thorough();
	rep.set_rule(
		"WebSocket connections (1–2) with max_subscriptions_per_connection ∈ {0,1,2}; peer scripts over {subscribe ×(cap+1…), unsubscribe own live / already unsubscribed / other connection's / never issued / wrong JSON type, close frame, abrupt drop, subscribe again after k endings} × handler scripts {accept and hold, accept and return, reject, drop pending, accept+watch closed(), accept+clone+drop one clone, accept+drop the sink+keep running}; all peer actions and handler steps (and, per scenario, the cfg points inside accept/send) are scheduling points; whole tree or ≤K deviations. Monitor with the interval rule: every unsubscribe answer must equal the reference 'active' value at some position between request and answer; refusals -32006 must be justified by a full connection at some position of the call; slot count never exceeds the cap; is_closed() of a held sink equals ¬active; a subscribe call answered with an error (incl. -32008 when max_response_body_size is below the accept() answer) has no live sink. Plus: an id provider that reuses an id after its holder was unsubscribed (the new subscription stays active whatever the old handler does with its sink), the low-level ws::connect assembly, string subscription ids.",
	);
	rep.assume("active ⇔ accepted ∧ not unsubscribed ∧ connection open (on_session_closed not yet resolved) ∧ the handler holds at least one sink; slots = pending + subscriptions whose handlers still hold a sink");
	for s in scenarios(thorough) {
		sched::explore_auto(&s, rep, if thorough { 400_000 } else { 10_000 }, if thorough { 3 } else { 2 }, if thorough { 10 } else { 50 }, Duration::from_secs(if thorough { 300 } else { 6 }));
	}
	for s in reused_id_scenarios() {
		sched::explore_auto(&s, rep, 100_000, 3, 20, Duration::from_secs(60));
	}
}

pub fn dyn_scenarios() -> Vec<Box<dyn sched::DynScenario>> {
	let mut v: Vec<Box<dyn sched::DynScenario>> = Vec::new();
	for s in reused_id_scenarios() {
		v.push(Box::new(s));
	}
	for s in scenarios(true) {
		v.push(Box::new(s));
	}
	for s in scenarios(false) {
		v.push(Box::new(s));
	}
	v
}


// ---------------------------------------------------------------------------------------------
// An id provider that hands out the same id again once the previous holder was unsubscribed: the new subscription is a
// different one and must not be affected by what the old handler still does with its (closed) sink.

pub struct ReusedIdScenario {
	pub old_handler: Vec<HStep>,
}

impl Scenario for ReusedIdScenario {
	type State = SrvState;
	fn name(&self) -> String {
		format!("srv_mem/bookkeeping:reused-subscription-id:{:?}", self.old_handler)
	}
	fn config(&self) -> Value {
		json!({"id_provider": "constant id \"X\"", "peer": "subscribe, unsubscribe, subscribe (same id), unsubscribe", "old_handler_script": format!("{:?}", self.old_handler), "new_handler_script": "accept, is_closed ×3, hold"})
	}
	fn mask(&self) -> fn(&str) -> bool {
		mask_harness_only
	}
	fn max_steps(&self) -> usize {
		300
	}
	fn setup(&self) -> SrvState {
		use HStep::*;
		use PeerAct::*;
		crate::smem::setup(&SrvCfg {
			conns: vec![Conn::Ws(vec![Subscribe(0), Unsub(0), Subscribe(1), Unsub(1)])],
			scripts: vec![self.old_handler.clone(), vec![Accept, IsClosed, IsClosed, IsClosed]],
			max_subs: 4,
			const_ids: true,
			..Default::default()
		})
	}
	fn judge(&self, _st: SrvState, trace: &[String], panics: &[String], status: Status) -> Verdict {
		let mut v = Vec::new();
		if status != Status::Quiescent {
			v.push((format!("machinery:{status:?}"), format!("{status:?}")));
		}
		for p in panics {
			v.push(("panic".into(), p.clone()));
		}
		let new_tag = "h:0:\"X\"#1";
		let acc = trace.iter().position(|l| *l == format!("{new_tag}:accept:ok"));
		let conn_end = trace.iter().position(|l| l == "c0:session-closed");
		let unsub_tx: Vec<usize> = trace.iter().enumerate().filter(|(_, l)| l.starts_with("c0:tx:") && l.contains("\"unsub\"")).map(|(i, _)| i).collect();
		if let Some(acc) = acc {
			// the new subscription is active from its accept until an unsubscribe request sent after that (or the connection's end)
			for (i, l) in trace.iter().enumerate().skip(acc) {
				if l.starts_with(&format!("{new_tag}:is_closed:")) && l.ends_with("true") {
					let justified = unsub_tx.iter().any(|u| *u > acc && *u < i) || conn_end.map_or(false, |e| e < i);
					if !justified {
						v.push((
							"is_closed-true-while-active:reused-id".into(),
							format!("the second subscription (same id as an earlier, unsubscribed one) reports closed at position {i} although it was not unsubscribed, its connection is open and its handler holds the sink"),
						));
					}
				}
			}
			// the unsubscribe sent after the new subscription was accepted names an active subscription
			if let Some(u) = unsub_tx.iter().find(|u| **u > acc) {
				let id = serde_json::from_str::<Value>(trace[*u].trim_start_matches("c0:tx:")).map(|m| m["id"].clone()).unwrap_or(Value::Null);
				let answer = trace.iter().skip(*u).filter_map(|l| l.strip_prefix("c0:rx:")).filter_map(|t| serde_json::from_str::<Value>(t).ok()).find(|m| m["id"] == id);
				if let Some(a) = answer {
					if a["result"] != true && conn_end.is_none() {
						v.push((
							"unsubscribe:false-for-active:reused-id".into(),
							format!("unsubscribe of the second subscription (id reused after the first one ended) answered {} although it was active", a),
						));
					}
				}
			}
		}
		let outcome: Vec<&String> = trace.iter().filter(|l| l.contains(":rx:") || l.contains("is_closed")).collect();
		Verdict { violations: v, outcome: format!("{outcome:?}") }
	}
}

pub fn reused_id_scenarios() -> Vec<ReusedIdScenario> {
	use HStep::*;
	vec![
		ReusedIdScenario { old_handler: vec![Accept, Send, DropSink(0)] },
		ReusedIdScenario { old_handler: vec![Accept, IsClosed, ReturnNone] },
		ReusedIdScenario { old_handler: vec![Accept, CloneSink, DropSink(0), DropSink(1)] },
	]
}
