//! C12 — client batch results are positional (ENUM over reply shapes for both clients + SCHED for concurrency).

use crate::clim::{self, CliScenarioCfg, CliState, EnvEvent, FeOp, OpStatus};
use crate::par::{par_for, seq_count, seq_decode};
use crate::report::{Local, Reporter};
use crate::sched::{self, Scenario, Status, Verdict};
use bytes::Bytes;
use http_body_util::{BodyExt, Full};
use jsonrpsee_core::client::{ClientT, IdKind};
use jsonrpsee_core::params::BatchRequestBuilder;
use jsonrpsee_core::rpc_params;
use jsonrpsee_http_client::{HttpClient, HttpClientBuilder, HttpRequest, HttpResponse};
use serde_json::{Value, json};
use std::sync::{Arc, Mutex};
use std::task::{Context, Poll};
use std::time::Duration;

#[derive(Clone, Copy, Debug, PartialEq)]
pub enum Item {
	Ok(usize),
	Err(usize),
	Foreign,
	NonNumeric,
	/// an id just below the batch's first id (only meaningful on a used client)
	Lower,
	/// a success answer for entry j whose result is a number: it cannot be decoded when the caller asked for strings
	Number(usize),
}

fn alphabet(n: usize) -> Vec<Item> {
	let mut a = Vec::new();
	for j in 0..n {
		a.push(Item::Ok(j));
	}
	for j in 0..n {
		a.push(Item::Err(j));
	}
	a.push(Item::Foreign);
	a.push(Item::NonNumeric);
	a
}

fn idtxt(kind: IdKind, n: u64) -> String {
	match kind {
		IdKind::Number => n.to_string(),
		IdKind::String => format!("\"{n}\""),
	}
}

fn reply_text(items: &[Item], n: usize, start: u64, kind: IdKind) -> String {
	let parts: Vec<String> = items
		.iter()
		.map(|it| match it {
			Item::Ok(j) => format!(r#"{{"jsonrpc":"2.0","id":{},"result":"ok{j}"}}"#, idtxt(kind, start + *j as u64)),
			Item::Err(j) => format!(r#"{{"jsonrpc":"2.0","id":{},"error":{{"code":{},"message":"e{j}"}}}}"#, idtxt(kind, start + *j as u64), 500 + j),
			Item::Foreign => format!(r#"{{"jsonrpc":"2.0","id":{},"result":"foreign"}}"#, idtxt(kind, start + n as u64 + 5)),
			Item::NonNumeric => r#"{"jsonrpc":"2.0","id":"x","result":"nn"}"#.to_string(),
			Item::Number(j) => format!(r#"{{"jsonrpc":"2.0","id":{},"result":{}}}"#, idtxt(kind, start + *j as u64), 70 + j),
			Item::Lower => format!(r#"{{"jsonrpc":"2.0","id":{},"result":"lower"}}"#, idtxt(kind, start.saturating_sub(1))),
		})
		.collect();
	format!("[{}]", parts.join(","))
}

/// Judge the outcome string of a batch call (`Ok("[...]#s..f..o..")` or `Err(..)`) against the reply sequence.
fn judge_batch(items: &[Item], n: usize, outcome: &Result<String, String>) -> Result<&'static str, (String, String)> {
	let answers = |j: usize| items.iter().filter(|it| matches!(it, Item::Ok(x) | Item::Err(x) | Item::Number(x) if *x == j)).count();
	let exact = items.len() == n && (0..n).all(|j| answers(j) == 1);
	// only the typed leg sends number results: there the caller asked for strings
	let undecodable = items.iter().any(|it| matches!(it, Item::Number(_)));
	let feature = if exact && undecodable {
		"undecodable-result"
	} else if exact {
		"permutation"
	} else if items.iter().any(|i| *i == Item::Foreign || *i == Item::Lower) {
		"foreign-id"
	} else if items.iter().any(|i| *i == Item::NonNumeric) {
		"non-numeric-id"
	} else if (0..n).any(|j| answers(j) > 1) {
		"repeated-id"
	} else {
		"missing-answer"
	};
	match outcome {
		Err(e) => {
			// an answer that cannot be decoded into the requested type may fail the whole call
			if exact && !undecodable {
				return Err((format!("complete-reply-rejected:{feature}"), format!("the reply answers every entry exactly once but the call failed: {e}")));
			}
			Ok("err")
		}
		Ok(s) => {
			let (list, meta) = s.split_once('#').unwrap_or((s.as_str(), ""));
			let entries: Vec<String> = if list == "[]" { vec![] } else { list.trim_start_matches('[').trim_end_matches(']').split(',').map(|x| x.to_string()).collect() };
			if entries.len() != n {
				return Err((format!("wrong-length:{feature}"), format!("batch of {n} entries returned {} results: {list}", entries.len())));
			}
			let mut n_ok = 0;
			let mut n_err = 0;
			for (i, e) in entries.iter().enumerate() {
				let cands: Vec<String> = items
					.iter()
					.filter_map(|it| match it {
						Item::Ok(j) if *j == i => Some(format!("\"ok{j}\"")),
						Item::Err(j) if *j == i => Some(format!("E{}", 500 + j)),
						_ => None,
					})
					.collect();
				let placeholder = e == "E0";
				if e.starts_with('E') { n_err += 1 } else { n_ok += 1 }
				if cands.contains(e) {
					continue;
				}
				// an undecodable answer for this entry may be reported as an error of the library's choosing, as long as
				// it is not another entry's error object
				if items.iter().any(|it| *it == Item::Number(i)) && e.starts_with('E') && !(0..n).any(|j| j != i && *e == format!("E{}", 500 + j)) {
					continue;
				}
				if placeholder && (cands.is_empty() || !exact) {
					continue;
				}
				return Err((format!("entry-filled-with-foreign-answer:{feature}"), format!("entry {i} of the result is {e}, but the delivered answers for that entry are {cands:?} (result {list})")));
			}
			if exact && !undecodable && entries.iter().any(|e| e == "E0") {
				return Err((format!("entry-lost:{feature}"), format!("every entry was answered but the result has a placeholder: {list}")));
			}
			// counts
			let exp_meta = format!("s{n_ok}f{n_err}o1");
			if meta != exp_meta {
				return Err((format!("counts-mismatch:{feature}"), format!("result {list} has {n_ok} successes / {n_err} failures but the response reports `{meta}` (s=successes f=failures o=into_ok consistent)")));
			}
			Ok("ok")
		}
	}
}

// ---------------------------------------------------------------------------------------------
// async (WebSocket-style) client over CLI-MEM, default schedule

struct WsBatch {
	n: usize,
	kind: IdKind,
	reply: String,
	/// this many calls are made (and answered) first, so that the batch does not start at id 0
	used_client: usize,
	/// the caller asks for `String` results instead of `Value`
	typed: bool,
}

fn mask_none(l: &str) -> bool {
	!(l.starts_with("server:") || l.starts_with("client:"))
}

impl Scenario for WsBatch {
	type State = CliState;
	fn name(&self) -> String {
		format!("cli_mem/batch-reply:{}:{:?}:{}:{}{}", self.n, self.kind, self.used_client, self.reply, if self.typed { ":typed" } else { "" })
	}
	fn config(&self) -> Value {
		json!({"n": self.n, "id_kind": format!("{:?}", self.kind), "reply": self.reply})
	}
	fn mask(&self) -> fn(&str) -> bool {
		mask_none
	}
	fn setup(&self) -> CliState {
		let ops = vec![if self.typed { FeOp::BatchStr(self.n) } else { FeOp::Batch(self.n) }];
		let env = vec![EnvEvent::Raw { after: self.used_client + 1, text: self.reply.clone() }];
		clim::setup(&CliScenarioCfg { request_timeout_ms: None, frame_ws: "", fail_close: false, ws_builder: None, rx_split: false, ping_ms: None, send_ping_ms: None, fail_ping: false, warmup: self.used_client, id_kind: self.kind, ops, env, fail_send_at: None, tx_points: false, buffer_cap: 4, late_after: 0 })
	}
	fn judge(&self, st: CliState, _t: &[String], panics: &[String], _s: Status) -> Verdict {
		let l = st.log.lock().unwrap();
		let outcome = match l.status.last().unwrap() {
			OpStatus::Ok(s) => format!("OK {s}"),
			OpStatus::Err(e) => format!("ERR {e}"),
			other => format!("{other:?}"),
		};
		let mut v = Vec::new();
		for p in panics {
			v.push(("panic".to_string(), p.clone()));
		}
		Verdict { violations: v, outcome }
	}
}

// ---------------------------------------------------------------------------------------------
// HTTP client over a scripted tower layer

#[derive(Clone)]
struct ScriptSvc {
	reply: Arc<Mutex<String>>,
	seen: Arc<Mutex<Vec<String>>>,
}

impl tower::Service<HttpRequest> for ScriptSvc {
	type Response = HttpResponse<Full<Bytes>>;
	type Error = jsonrpsee_http_client::transport::Error;
	type Future = std::pin::Pin<Box<dyn Future<Output = Result<Self::Response, Self::Error>> + Send>>;
	fn poll_ready(&mut self, _cx: &mut Context<'_>) -> Poll<Result<(), Self::Error>> {
		Poll::Ready(Ok(()))
	}
	fn call(&mut self, req: HttpRequest) -> Self::Future {
		let reply = self.reply.clone();
		let seen = self.seen.clone();
		Box::pin(async move {
			let body = req.into_body().collect().await.map(|b| b.to_bytes()).unwrap_or_default();
			seen.lock().unwrap().push(String::from_utf8_lossy(&body).to_string());
			let body_s = String::from_utf8_lossy(&body).to_string();
			// a single call (warm-up) is answered with its own id; the batch gets the scripted reply
			let txt = if body_s.trim_start().starts_with('{') {
				let v: Value = serde_json::from_str(&body_s).unwrap_or(Value::Null);
				json!({"jsonrpc":"2.0","id": v["id"], "result":"warm"}).to_string()
			} else {
				reply.lock().unwrap().clone()
			};
			Ok(http::Response::builder().status(200).header("content-type", "application/json").body(Full::new(Bytes::from(txt))).unwrap())
		})
	}
}

#[derive(Clone)]
struct ScriptLayer(ScriptSvc);
impl<S> tower::Layer<S> for ScriptLayer {
	type Service = ScriptSvc;
	fn layer(&self, _inner: S) -> ScriptSvc {
		self.0.clone()
	}
}

struct HttpHarness {
	rt: tokio::runtime::Runtime,
	svc: ScriptSvc,
	kind: IdKind,
}

impl HttpHarness {
	fn new(kind: IdKind) -> Self {
		let rt = tokio::runtime::Builder::new_current_thread().enable_all().build().unwrap();
		let svc = ScriptSvc { reply: Arc::new(Mutex::new(String::new())), seen: Arc::new(Mutex::new(Vec::new())) };
		HttpHarness { rt, svc, kind }
	}
	/// a fresh client per case so that the batch starts at id 0
	fn batch(&self, n: usize, reply: &str, used_client: usize, typed: bool) -> (Result<String, String>, Vec<String>) {
		*self.svc.reply.lock().unwrap() = reply.to_string();
		self.svc.seen.lock().unwrap().clear();
		let _e = self.rt.enter();
		let client: HttpClient<_> = HttpClientBuilder::default()
			.id_format(self.kind)
			.set_http_middleware(tower::ServiceBuilder::new().layer(ScriptLayer(self.svc.clone())))
			.build("http://localhost:1")
			.expect("http client builds");
		let res = self.rt.block_on(async {
			for _ in 0..used_client {
				let _: Value = client.request("warm", rpc_params![]).await.expect("warm-up call");
			}
			let mut b = BatchRequestBuilder::new();
			for j in 0..n {
				b.insert("bm0", rpc_params![j as u64]).unwrap();
			}
			if typed {
				client.batch_request::<String>(b).await.map(clim::batch_summary).map_err(|e| clim::err_str(&e))
			} else {
				client.batch_request::<Value>(b).await.map(clim::batch_summary).map_err(|e| clim::err_str(&e))
			}
		});
		(res, self.svc.seen.lock().unwrap().clone())
	}
}

// ---------------------------------------------------------------------------------------------
// SCHED: several batches and a call in flight, reversed arrays, all delivery orders

struct ConcurrentBatches {
	kind: IdKind,
	ops: Vec<FeOp>,
}

impl Scenario for ConcurrentBatches {
	type State = CliState;
	fn name(&self) -> String {
		format!("cli_mem/concurrent-batches:{:?}:{:?}", self.kind, self.ops)
	}
	fn config(&self) -> Value {
		json!({"id_kind": format!("{:?}", self.kind), "ops": format!("{:?}", self.ops)})
	}
	fn mask(&self) -> fn(&str) -> bool {
		mask_none
	}
	fn setup(&self) -> CliState {
		let env = (0..self.ops.len()).map(|k| EnvEvent::Answer { msg: k, kind: clim::AnswerKind::OkRev }).collect();
		clim::setup(&CliScenarioCfg { request_timeout_ms: None, frame_ws: "", fail_close: false, ws_builder: None, rx_split: false, ping_ms: None, send_ping_ms: None, fail_ping: false, warmup: 0, id_kind: self.kind, ops: self.ops.clone(), env, fail_send_at: None, tx_points: false, buffer_cap: 4, late_after: 0 })
	}
	fn judge(&self, st: CliState, _t: &[String], panics: &[String], _s: Status) -> Verdict {
		let l = st.log.lock().unwrap();
		let sent = st.shared.sent.lock().unwrap().clone();
		let mut v = Vec::new();
		for p in panics {
			v.push(("panic".to_string(), p.clone()));
		}
		let mut outcome = Vec::new();
		for (i, op) in self.ops.iter().enumerate() {
			let k = clim::wire_index_of(&sent, op, i);
			match (&l.status[i], k) {
				(OpStatus::Ok(r), Some(k)) => {
					let exp = match op {
						FeOp::Batch(n) => format!("[{}]#s{n}f0o1", (0..*n).map(|j| format!("\"r{k}.{j}\"")).collect::<Vec<_>>().join(",")),
						_ => format!("\"r{k}\""),
					};
					if *r != exp {
						v.push(("concurrent:wrong-result".to_string(), format!("op #{i} ({op:?}, wire #{k}) returned {r}, expected {exp}")));
					}
					outcome.push(format!("ok{k}"));
				}
				(other, _) => {
					v.push(("concurrent:not-completed".to_string(), format!("op #{i} ({op:?}) ended as {other:?} although every request was answered")));
					outcome.push("bad".into());
				}
			}
		}
		Verdict { violations: v, outcome: outcome.join("|") }
	}
}

pub fn check(rep: &Reporter) {
	let thorough = rep.tier.thorough();
	let nmax = if thorough { 5 } else { 4 };
	rep.set_rule(&format!(
		"batch size n = 1..{nmax}; server reply = every sequence of length 0..n+1 over {{ok answer for entry j, error answer for entry j (j<n), answer with an id outside the batch, answer with a non-numeric id}} (all permutations, subsets, duplications); × id kind {{number, string}} × {{fresh client (first id 0), used client (first id 1{}; plus an answer whose id lies just below the batch)}} × client {{async client over CLI-MEM, HTTP client over a scripted tower layer}}; plus a typed leg (results requested as String, n ≤ 3, thorough 4): every such sequence over {{ok, error, number-valued success (undecodable for the caller), foreign id}} that contains a number-valued success; plus SCHED: 2 batches and a call in flight with reversed reply arrays under every delivery order. Oracle: positional reference (entry i may only hold an answer delivered for id start+i, or the error placeholder; exact permutations must succeed exactly; success/failure counts and into_ok() agree with the entries).",
		if thorough { ", first id 9 so that string ids cross \"9\"/\"10\"" } else { " and, for n ≤ 2, first id 9" }
	));
	rep.assume("each case uses a fresh client so the batch ids start at 0, 1 or 9");
	sched::install_hooks();
	for n in 1..=nmax {
		for used in [0usize, 1, 9] {
			let limit = match (used, thorough) {
				(0, _) => nmax,
				(1, true) => 4,
				(1, false) => 3,
				(_, true) => 3,
				(_, false) => 2,
			};
			if n > limit {
				continue;
			}
			let mut alpha = alphabet(n);
			if used > 0 {
				alpha.push(Item::Lower);
			}
			let start: u64 = used as u64;
			let total = seq_count(alpha.len(), n + 1);
			for kind in [IdKind::Number, IdKind::String] {
				par_for(rep, total, 64, || HttpHarness::new(kind), |i, http, local: &mut Local| {
					let items: Vec<Item> = seq_decode(i, alpha.len(), n + 1).into_iter().map(|k| alpha[k]).collect();
					let reply = reply_text(&items, n, start, kind);
					// async client
					let ex = sched::run_one(&WsBatch { n, kind, reply: reply.clone(), used_client: used, typed: false }, &[], false);
					let ws_out: Result<String, String> = if let Some(s) = ex.obs.outcome.strip_prefix("OK ") {
						Ok(s.to_string())
					} else if let Some(e) = ex.obs.outcome.strip_prefix("ERR ") {
						Err(e.to_string())
					} else {
						rep.violation("async:pending-after-reply", &format!("batch of {n}: after the reply {reply} the batch future is {}", ex.obs.outcome), json!({"engine":"ENUM","client":"async","n": n, "reply": reply}));
						Err("pending".into())
					};
					for (sig, what) in &ex.obs.violations {
						rep.violation(&format!("async:{sig}"), what, json!({"client":"async","reply": reply}));
					}
					let http_out = http.batch(n, &reply, used, false).0;
					for (cname, out) in [("async", &ws_out), ("http", &http_out)] {
						match judge_batch(&items, n, out) {
							Ok(class) => local.case_unique(&format!("{cname}:{class}")),
							Err((sig, what)) => {
								local.case_unique(&format!("{cname}:violation"));
								rep.violation(&format!("{cname}:{sig}"), &format!("{cname} client, batch of {n} ({kind:?} ids, first id {start}), reply {reply}: {what}"), json!({"engine":"ENUM","client": cname, "n": n, "id_kind": format!("{kind:?}"), "first_id": start, "reply": reply, "outcome": format!("{out:?}")}));
							}
						}
					}
					if i == 777 {
						rep.sample(json!({"n": n, "first_id": start, "reply": reply, "async": format!("{ws_out:?}"), "http": format!("{http_out:?}")}));
					}
				});
			}
		}
	}
	// typed leg: the caller asks for String results and some answers are numbers (valid JSON-RPC, wrong type for the caller):
	// the call may fail as a whole or report that entry as an error, but never returns a shorter or shifted list
	for n in 1..=(if thorough { 4 } else { 3 }) {
		let mut alpha = Vec::new();
		for j in 0..n {
			alpha.extend([Item::Ok(j), Item::Err(j), Item::Number(j)]);
		}
		alpha.push(Item::Foreign);
		let total = seq_count(alpha.len(), n + 1);
		for kind in [IdKind::Number, IdKind::String] {
			par_for(rep, total, 64, || HttpHarness::new(kind), |i, http, local: &mut Local| {
				let items: Vec<Item> = seq_decode(i, alpha.len(), n + 1).into_iter().map(|k| alpha[k]).collect();
				// the untyped sweep above covers the sequences without a number result
				if !items.iter().any(|it| matches!(it, Item::Number(_))) {
					return;
				}
				let reply = reply_text(&items, n, 0, kind);
				let ex = sched::run_one(&WsBatch { n, kind, reply: reply.clone(), used_client: 0, typed: true }, &[], false);
				let ws_out: Result<String, String> = if let Some(s) = ex.obs.outcome.strip_prefix("OK ") {
					Ok(s.to_string())
				} else if let Some(e) = ex.obs.outcome.strip_prefix("ERR ") {
					Err(e.to_string())
				} else {
					rep.violation("async:pending-after-reply", &format!("typed batch of {n}: after the reply {reply} the batch future is {}", ex.obs.outcome), json!({"engine":"ENUM","client":"async","n": n, "reply": reply}));
					Err("pending".into())
				};
				for (sig, what) in &ex.obs.violations {
					rep.violation(&format!("async:{sig}"), what, json!({"client":"async","reply": reply}));
				}
				let http_out = http.batch(n, &reply, 0, true).0;
				for (cname, out) in [("async", &ws_out), ("http", &http_out)] {
					match judge_batch(&items, n, out) {
						Ok(class) => local.case_unique(&format!("{cname}:typed:{class}")),
						Err((sig, what)) => {
							local.case_unique(&format!("{cname}:violation"));
							rep.violation(&format!("{cname}:typed:{sig}"), &format!("{cname} client, batch of {n} read as String ({kind:?} ids), reply {reply}: {what}"), json!({"engine":"ENUM","client": cname, "n": n, "id_kind": format!("{kind:?}"), "requested_type": "String", "reply": reply, "outcome": format!("{out:?}")}));
						}
					}
				}
			});
		}
	}
	// SCHED leg
	for kind in [IdKind::Number, IdKind::String] {
		let mut sets = vec![vec![FeOp::Batch(2), FeOp::Batch(3)], vec![FeOp::Batch(2), FeOp::Call, FeOp::Batch(2)]];
		if thorough {
			sets.push(vec![FeOp::Batch(3), FeOp::Batch(2), FeOp::Call, FeOp::Call]);
		}
		for ops in sets {
			sched::explore_auto(&ConcurrentBatches { kind, ops }, rep, if thorough { 300_000 } else { 20_000 }, 2, 50, Duration::from_secs(if thorough { 120 } else { 10 }));
		}
	}
}
