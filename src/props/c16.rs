//! C16 — params decoding agrees with a plain JSON parse and fails only with -32602 (ENUM, PURE).

use crate::par::{par_for, seq_count, seq_decode};
use crate::report::{Local, Reporter, hash_of};
use jsonrpsee_types::{ErrorObjectOwned, Params};
use serde_json::{Value, json};

const ELEMS: [&str; 17] = [
	"1",
	"null",
	"\"a\"",
	"-1",
	"1.5",
	"true",
	"[]",
	"{}",
	"\"]\"",
	"\",\"",
	"\"\\\\\\\"\"",
	"\"é\"",
	"[ ]",
	"[1,[2]]",
	"{\"a\":[1,2]}",
	"18446744073709551616",
	"1e400",
];
const WS: [&str; 4] = ["", " ", "\t\n", "\r\n"];

#[derive(Clone, Copy, Debug, PartialEq)]
enum Op {
	NextValue,
	NextU64,
	NextString,
	OptValue,
	OptU64,
}
const OPS: [Op; 5] = [Op::NextValue, Op::NextU64, Op::NextString, Op::OptValue, Op::OptU64];

/// what one read returned, normalised
#[derive(Debug, PartialEq, Clone)]
enum Got {
	Val(Value),
	Absent,
	Err(i32),
}

fn norm<T: serde::Serialize>(r: Result<T, ErrorObjectOwned>) -> Got {
	match r {
		Ok(v) => Got::Val(serde_json::to_value(v).unwrap()),
		Err(e) => Got::Err(e.code()),
	}
}
fn norm_opt<T: serde::Serialize>(r: Result<Option<T>, ErrorObjectOwned>) -> Got {
	match r {
		Ok(Some(v)) => Got::Val(serde_json::to_value(v).unwrap()),
		Ok(None) => Got::Absent,
		Err(e) => Got::Err(e.code()),
	}
}

/// reference: convert element to the op's type with plain serde_json
fn convert(op: Op, el: &Value) -> Option<Value> {
	match op {
		Op::NextValue | Op::OptValue => Some(el.clone()),
		Op::NextU64 | Op::OptU64 => serde_json::from_value::<u64>(el.clone()).ok().map(|n| json!(n)),
		Op::NextString => serde_json::from_value::<String>(el.clone()).ok().map(Value::String),
	}
}

fn is_opt(op: Op) -> bool {
	matches!(op, Op::OptValue | Op::OptU64)
}

struct Case<'a> {
	text: &'a str,
	/// Some(elements) if the text is a JSON array (element None = not parseable by serde_json, e.g. 1e400)
	elems: Option<Vec<Option<Value>>>,
}

fn run_script(rep: &Reporter, local: &mut Local, c: &Case, script: &[Op]) {
	let params = Params::new(Some(c.text));
	let mut seq = params.sequence();
	let mut i = 0usize;
	let mut failed = false;
	let mut class = String::new();
	for (k, op) in script.iter().enumerate() {
		let got = match op {
			Op::NextValue => norm(seq.next::<Value>()),
			Op::NextU64 => norm(seq.next::<u64>()),
			Op::NextString => norm(seq.next::<String>()),
			Op::OptValue => norm_opt(seq.optional_next::<Value>()),
			Op::OptU64 => norm_opt(seq.optional_next::<u64>()),
		};
		// expected
		let (ok, exp_desc, clause): (bool, String, &str) = match &c.elems {
			None => (matches!(got, Got::Err(-32602)), "Err(-32602) (params is not an array)".into(), "non-array"),
			Some(elems) => {
				if failed {
					(matches!(got, Got::Err(-32602) | Got::Absent), "Err(-32602) or absent (after a failed read)".into(), "after-failure")
				} else if i >= elems.len() {
					if is_opt(*op) {
						(got == Got::Absent, "absent (past the end)".into(), if elems.is_empty() { "optional-on-empty" } else { "optional-past-end" })
					} else {
						(matches!(got, Got::Err(-32602)), "Err(-32602) (exhausted)".into(), "exhaustion")
					}
				} else {
					match &elems[i] {
						None => {
							failed = true;
							(matches!(got, Got::Err(-32602)), "Err(-32602) (element is not valid JSON for serde_json)".into(), "bad-element")
						}
						Some(el) => {
							if is_opt(*op) && el.is_null() {
								i += 1;
								(got == Got::Absent, "absent (null element)".into(), "optional-null")
							} else {
								match convert(*op, el) {
									Some(v) => {
										i += 1;
										(got == Got::Val(v.clone()), format!("{v}"), "element-value")
									}
									None => {
										failed = true;
										(matches!(got, Got::Err(-32602)), "Err(-32602) (type mismatch)".into(), "type-mismatch")
									}
								}
							}
						}
					}
				}
			}
		};
		class = clause.to_string();
		if !ok {
			let ws_kind = if c.text.contains("[ ]") || c.text.contains("[\t\n]") { ":blank-in-brackets" } else { "" };
			rep.violation(
				&format!("sequence:{clause}:{op:?}{ws_kind}"),
				&format!("params {:?}, read #{k} {op:?} returned {got:?}, expected {exp_desc}", c.text),
				json!({"engine":"ENUM","part":"sequence","params": c.text, "script": format!("{script:?}"), "read_index": k, "observed": format!("{got:?}"), "expected": exp_desc}),
			);
			break;
		}
	}
	local.case_unique(&class);
}

fn whole(rep: &Reporter, local: &mut Local, text: Option<&str>, elems: &Option<Vec<Option<Value>>>) {
	let params = Params::new(text);
	let reference: Option<Value> = match text {
		None => Some(Value::Null),
		Some(t) => serde_json::from_str::<Value>(t).ok(),
	};
	// parse::<Value>
	let got = params.parse::<Value>();
	match (&reference, &got) {
		(Some(r), Ok(g)) if r == g => {}
		(None, Err(e)) if e.code() == -32602 => {}
		_ => rep.violation("parse:Value", &format!("params {text:?}: parse::<Value>() = {got:?}, plain parse = {reference:?}"), json!({"engine":"ENUM","part":"whole","params": text})),
	}
	// parse::<Vec<Value>>
	let got = params.parse::<Vec<Value>>();
	match (&reference, &got) {
		(Some(Value::Array(r)), Ok(g)) if r == g => {}
		(Some(Value::Array(_)), _) => rep.violation("parse:Vec", &format!("params {text:?}: parse::<Vec<Value>>() = {got:?}"), json!({"engine":"ENUM","part":"whole","params": text})),
		(_, Err(e)) if e.code() == -32602 => {}
		_ => rep.violation("parse:Vec:non-array", &format!("params {text:?}: parse::<Vec<Value>>() = {got:?}"), json!({"engine":"ENUM","part":"whole","params": text})),
	}
	// one::<Value>
	let got = params.one::<Value>();
	match (&reference, &got) {
		(Some(Value::Array(r)), Ok(g)) if r.len() == 1 && r[0] == *g => {}
		(Some(Value::Array(r)), Ok(_)) => rep.violation("one:arity", &format!("params {text:?} (len {}): one() = {got:?}", r.len()), json!({"engine":"ENUM","part":"whole","params": text})),
		(_, Err(e)) if e.code() == -32602 => {
			if let Some(Value::Array(r)) = &reference {
				if r.len() == 1 {
					rep.violation("one:rejected", &format!("params {text:?}: one() = {got:?}"), json!({"engine":"ENUM","part":"whole","params": text}));
				}
			}
		}
		_ => rep.violation("one:other", &format!("params {text:?}: one() = {got:?}"), json!({"engine":"ENUM","part":"whole","params": text})),
	}
	// absent params behave as the empty array for sequence reads
	if text.is_none() {
		let mut s = params.sequence();
		if !matches!(s.optional_next::<Value>(), Ok(None)) || !matches!(norm(s.next::<Value>()), Got::Err(-32602)) {
			rep.violation("absent:sequence", "absent params: sequence is not empty", json!({"part":"whole","params": null}));
		}
	}
	// an owned copy (what async methods and subscriptions receive) behaves like the borrowed original
	{
		let owned = Params::new(text).into_owned();
		let a = params.parse::<Value>().map_err(|e| e.code());
		let b = owned.parse::<Value>().map_err(|e| e.code());
		let seq_a = norm_opt(params.sequence().optional_next::<Value>());
		let seq_b = norm_opt(owned.sequence().optional_next::<Value>());
		if a != b || params.is_object() != owned.is_object() || seq_a != seq_b || params.len_bytes() != owned.len_bytes() {
			rep.violation(
				"into_owned:differs",
				&format!("params {text:?}: borrowed parse = {a:?}, is_object = {}, first optional read = {seq_a:?}; after into_owned(): parse = {b:?}, is_object = {}, first optional read = {seq_b:?}", params.is_object(), owned.is_object()),
				json!({"engine":"ENUM","part":"whole","params": text}),
			);
		}
	}
	let _ = elems;
	local.case(hash_of(&("whole", text)), true, "whole");
}

fn build_text(elems: &[usize], gaps: &[usize]) -> String {
	// gaps: [lead, after '[', (before ',', after ',')*, before ']', trail]
	let mut t = String::new();
	let mut g = gaps.iter();
	t.push_str(WS[*g.next().unwrap()]);
	t.push('[');
	t.push_str(WS[*g.next().unwrap()]);
	for (k, e) in elems.iter().enumerate() {
		if k > 0 {
			t.push_str(WS[*g.next().unwrap()]);
			t.push(',');
			t.push_str(WS[*g.next().unwrap()]);
		}
		t.push_str(ELEMS[*e]);
	}
	if !elems.is_empty() {
		t.push_str(WS[*g.next().unwrap()]);
	}
	t.push(']');
	t.push_str(WS[*g.next().unwrap()]);
	t
}

fn n_gaps(n: usize) -> usize {
	if n == 0 { 3 } else { 2 + 2 * (n - 1) + 2 }
}

pub fn check(rep: &Reporter) {
	let thorough = rep.tier.thorough();
	let max_len = 3;
	let max_script = if thorough { 4 } else { 3 };
	rep.set_rule(&format!(
		"params texts = arrays of 0..{max_len} elements out of {} element texts (numbers incl. out-of-range, strings containing brackets/commas/escapes, nested and blank containers) with whitespace from {{none, space, tab-newline, CR-LF}} at every token gap (all combinations for ≤1 element; for 2 elements at most 2 (thorough 4) non-empty gaps; for 3 elements at most {} non-empty gaps), plus objects/scalars/absent (each also as an owned copy, which must behave like the borrowed original), plus strings of 20..70 (thorough 1..140) two-, three- and four-byte characters behind 0..3 ASCII characters as only element / second element / non-array params / object member; read scripts = all sequences of length 1..{max_script} over {{next<Value>, next<u64>, next<String>, optional_next<Value>, optional_next<u64>}}; every (text, script) pair is judged against serde_json's parse of the element texts; distinct = (text, script), all non-trivial.",
		ELEMS.len(),
		if thorough { 3 } else { 1 }
	));
	rep.assume("serde_json's own parsing of each element text is the reference");
	// enumerate texts
	let mut cases: Vec<(String, Option<Vec<Option<Value>>>)> = Vec::new();
	let mut seen = std::collections::HashSet::new();
	for n in 0..=max_len {
		let ne = ELEMS.len().pow(n as u32);
		for ei in 0..ne {
			let mut e = Vec::new();
			let mut x = ei;
			for _ in 0..n {
				e.push(x % ELEMS.len());
				x /= ELEMS.len();
			}
			let g = n_gaps(n);
			let ng = WS.len().pow(g as u32);
			for gi in 0..ng {
				let mut gaps = Vec::new();
				let mut x = gi;
				for _ in 0..g {
					gaps.push(x % WS.len());
					x /= WS.len();
				}
				let nonempty = gaps.iter().filter(|k| **k != 0).count();
				if n == 3 && nonempty > if thorough { 3 } else { 1 } {
					continue;
				}
				if n == 2 && nonempty > if thorough { 4 } else { 2 } {
					continue;
				}
				let text = build_text(&e, &gaps);
				if !seen.insert(text.clone()) {
					continue;
				}
				let elems: Vec<Option<Value>> = e.iter().map(|k| serde_json::from_str::<Value>(ELEMS[*k]).ok()).collect();
				cases.push((text, Some(elems)));
			}
		}
	}
	for t in ["{}", "{\"a\":1}", " {\"a\":[1,2]} ", "5", "\"s\"", "null", "true", "-1.5"] {
		cases.push((t.to_string(), None));
	}
	// long non-ASCII strings (error texts that quote the offending value get long, and every byte offset up to ~280 falls
	// inside a multi-byte character for some of them): as the only element, after a good element, and as non-array params
	let mut long_texts = 0usize;
	for prefix in ["", "a", "ab", "abc"] {
		for ch in ['é', '€', '😀'] {
			for m in if thorough { 1..=140usize } else { 20..=70usize } {
				let sv = format!("\"{prefix}{}\"", ch.to_string().repeat(m));
				let el = serde_json::from_str::<Value>(&sv).ok();
				cases.push((format!("[{sv}]"), Some(vec![el.clone()])));
				cases.push((format!("[1, {sv}]"), Some(vec![Some(json!(1)), el.clone()])));
				cases.push((sv.clone(), None));
				cases.push((format!("{{\"k\":{sv}}}"), None));
				long_texts += 4;
			}
		}
	}
	rep.extra("long_non_ascii_texts", json!(long_texts));
	drop(seen);
	rep.extra("params_texts", json!(cases.len()));
	let nscripts = seq_count(OPS.len(), max_script) - 1;
	rep.extra("read_scripts", json!(nscripts));
	let panics = std::sync::atomic::AtomicU64::new(0);
	par_for(rep, cases.len(), 64, || (), |ci, _, local| {
		let (text, elems) = &cases[ci];
		let c = Case { text, elems: elems.clone() };
		let r = std::panic::catch_unwind(std::panic::AssertUnwindSafe(|| {
			let len = c.elems.as_ref().map_or(0, |e| e.len());
			for si in 1..=nscripts {
				let script: Vec<Op> = seq_decode(si, OPS.len(), max_script).into_iter().map(|k| OPS[k]).collect();
				// scripts longer than len+2 only repeat the exhausted state
				if script.len() > len + 2 {
					continue;
				}
				run_script(rep, local, &c, &script);
			}
			whole(rep, local, Some(text), &c.elems);
		}));
		if r.is_err() {
			panics.fetch_add(1, std::sync::atomic::Ordering::Relaxed);
			rep.violation("panic", &format!("reading params {text:?} panicked"), json!({"engine":"ENUM","params": text}));
		}
		if ci % 9973 == 7 {
			rep.sample(json!({"params": text, "reference_elements": c.elems.as_ref().map(|e| e.iter().map(|x| x.clone().unwrap_or(json!("<unparseable>"))).collect::<Vec<_>>())}));
		}
	});
	let mut local = Local::default();
	whole(rep, &mut local, None, &None);
	rep.merge(local);
}
