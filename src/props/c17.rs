//! C17 — generated APIs: client stub calls reach the server method with equal arguments (ENUM on E2E-MEM).

use crate::report::{Local, Reporter};
use crate::srv;
use jsonrpsee::core::client::{Subscription, SubscriptionClientT};
use jsonrpsee::core::params::ObjectParams;
use jsonrpsee::core::{RpcResult, SubscriptionResult, async_trait};
use jsonrpsee::proc_macros::rpc;
use jsonrpsee::types::ErrorObjectOwned;
use jsonrpsee::ws_client::{WsClient, WsClientBuilder};
use jsonrpsee::{PendingSubscriptionSink, SubscriptionMessage, rpc_params};
use serde::{Deserialize, Serialize};
use serde_json::{Value, json};
use std::collections::BTreeMap;
use std::sync::{Arc, Mutex};

#[derive(Clone, Debug, PartialEq, Serialize, Deserialize)]
pub enum Kind {
	Unit,
	Pair(i64, String),
	Rec { flag: bool },
}

#[derive(Clone, Debug, PartialEq, Serialize, Deserialize)]
pub struct Nested {
	pub x: i64,
	pub y: Option<String>,
	pub z: Kind,
	pub m: BTreeMap<String, u64>,
}

#[derive(Clone, Debug, PartialEq, Serialize, Deserialize)]
pub struct Item {
	pub n: u64,
	pub tag: String,
}

type Log = Arc<Mutex<Vec<(String, Value)>>>;

#[rpc(client, server)]
pub trait Plain {
	#[method(name = "p0")]
	async fn p0(&self) -> RpcResult<u64>;
	#[method(name = "p1")]
	async fn p1(&self, a: u64) -> RpcResult<u64>;
	#[method(name = "p2")]
	fn p2(&self, a: i64, b: String) -> RpcResult<(i64, String)>;
	#[method(name = "p4", blocking)]
	fn p4(&self, a: u8, b: bool, c: Vec<u64>, d: Nested) -> RpcResult<(u8, bool, Vec<u64>, Nested)>;
	#[method(name = "f1")]
	async fn f1(&self, a: f64) -> RpcResult<f64>;
	#[method(name = "opt1")]
	async fn opt1(&self, a: u64, b: Option<String>) -> RpcResult<(u64, Option<String>)>;
	#[method(name = "opt2")]
	async fn opt2(&self, a: u64, b: Option<u64>, c: Option<String>) -> RpcResult<(u64, Option<u64>, Option<String>)>;
	#[method(name = "optmid")]
	async fn optmid(&self, a: Option<u64>, b: String) -> RpcResult<(Option<u64>, String)>;
	#[method(name = "map2", param_kind = map)]
	async fn map2(&self, first: u64, #[argument(rename = "type")] kind: String) -> RpcResult<(u64, String)>;
	#[method(name = "map3", param_kind = map)]
	async fn map3(
		&self,
		#[argument(rename = "BlockHash")] block_hash: String,
		#[argument(rename = "include-proof")] include_proof: bool,
		#[argument(rename = "MAX_DEPTH")] max_depth: Option<u64>,
	) -> RpcResult<(String, bool, Option<u64>)>;
	#[method(name = "mapopt", param_kind = map)]
	fn mapopt(&self, a: u64, b: Option<String>) -> RpcResult<(u64, Option<String>)>;
	// the optional tail spelled through other paths than the prelude's
	#[method(name = "optcore")]
	async fn optcore(&self, a: u64, b: core::option::Option<u64>, c: ::core::option::Option<String>) -> RpcResult<(u64, Option<u64>, Option<String>)>;
	#[method(name = "optstd")]
	fn optstd(&self, a: u64, b: std::option::Option<String>) -> RpcResult<(u64, Option<String>)>;
	// raw identifiers as by-name argument names, without a rename
	#[method(name = "mapraw", param_kind = map)]
	async fn mapraw(&self, r#type: String, r#ref: u64) -> RpcResult<(String, u64)>;
	#[method(name = "camelCaseName")]
	async fn camel_case(&self, my_arg: String) -> RpcResult<String>;
	#[method(name = "aliased", aliases = ["aliased_v2", "other.alias"])]
	async fn aliased(&self, a: u64) -> RpcResult<u64>;
	#[method(name = "fails")]
	async fn fails(&self, a: i32) -> RpcResult<u64>;
	#[method(name = "plainret")]
	async fn plainret(&self, a: u64) -> Result<u64, ErrorObjectOwned>;
	#[subscription(name = "subscribe_items" => "items", unsubscribe = "unsubscribe_items", item = Item, aliases = ["sub_alias"], unsubscribe_aliases = ["unsub_alias"])]
	async fn sub_items(&self, a: u64, b: Option<String>) -> SubscriptionResult;
	#[subscription(name = "subscribe_map" => "mapitems", unsubscribe = "unsubscribe_map", item = Item, param_kind = map)]
	async fn sub_map(&self, count: u64, tag: String) -> SubscriptionResult;
}

#[rpc(client, server, namespace = "ns")]
pub trait Under {
	#[method(name = "echo", aliases = ["under_alias"])]
	async fn echo(&self, a: u64, b: Option<String>) -> RpcResult<(u64, Option<String>)>;
	#[method(name = "sync", blocking)]
	fn sync(&self, a: String) -> RpcResult<String>;
}

#[rpc(client, server, namespace = "dot", namespace_separator = ".")]
pub trait Dot {
	#[method(name = "echo", aliases = ["dotAlias"], param_kind = map)]
	async fn echo(&self, a: u64, b: Option<String>) -> RpcResult<(u64, Option<String>)>;
	#[subscription(name = "sub" => "notif", unsubscribe = "unsub", item = Item, aliases = ["dotSubAlias"], unsubscribe_aliases = ["dotUnsubAlias"])]
	async fn sub(&self, a: u64) -> SubscriptionResult;
	/// sends `a` items and then stays open until the client unsubscribes
	#[subscription(name = "hold" => "holdNotif", unsubscribe = "unhold", item = Item)]
	async fn hold(&self, a: u64) -> SubscriptionResult;
}

#[rpc(client, server, namespace = "slash", namespace_separator = "/")]
pub trait Slash {
	#[method(name = "echo")]
	fn echo(&self, a: Vec<String>) -> RpcResult<Vec<String>>;
}

pub struct Impl(Log);

impl Impl {
	fn rec(&self, m: &str, args: Value) {
		self.0.lock().unwrap().push((m.to_string(), args));
	}
}

async fn pump(pending: PendingSubscriptionSink, count: u64, tag: String) -> SubscriptionResult {
	let sink = pending.accept().await?;
	for n in 0..count.min(4) {
		let msg = SubscriptionMessage::from(serde_json::value::to_raw_value(&Item { n, tag: tag.clone() }).unwrap());
		sink.send(msg).await?;
	}
	Ok(())
}

#[async_trait]
impl PlainServer for Impl {
	async fn p0(&self) -> RpcResult<u64> {
		self.rec("p0", json!([]));
		Ok(7)
	}
	async fn p1(&self, a: u64) -> RpcResult<u64> {
		self.rec("p1", json!([a]));
		Ok(a)
	}
	fn p2(&self, a: i64, b: String) -> RpcResult<(i64, String)> {
		self.rec("p2", json!([a, b]));
		Ok((a, b))
	}
	fn p4(&self, a: u8, b: bool, c: Vec<u64>, d: Nested) -> RpcResult<(u8, bool, Vec<u64>, Nested)> {
		self.rec("p4", json!([a, b, c, d]));
		Ok((a, b, c, d))
	}
	async fn f1(&self, a: f64) -> RpcResult<f64> {
		self.rec("f1", json!([a.to_bits()]));
		Ok(a)
	}
	async fn opt1(&self, a: u64, b: Option<String>) -> RpcResult<(u64, Option<String>)> {
		self.rec("opt1", json!([a, b]));
		Ok((a, b))
	}
	async fn opt2(&self, a: u64, b: Option<u64>, c: Option<String>) -> RpcResult<(u64, Option<u64>, Option<String>)> {
		self.rec("opt2", json!([a, b, c]));
		Ok((a, b, c))
	}
	async fn optmid(&self, a: Option<u64>, b: String) -> RpcResult<(Option<u64>, String)> {
		self.rec("optmid", json!([a, b]));
		Ok((a, b))
	}
	async fn map2(&self, first: u64, kind: String) -> RpcResult<(u64, String)> {
		self.rec("map2", json!([first, kind]));
		Ok((first, kind))
	}
	async fn map3(&self, block_hash: String, include_proof: bool, max_depth: Option<u64>) -> RpcResult<(String, bool, Option<u64>)> {
		self.rec("map3", json!([block_hash, include_proof, max_depth]));
		Ok((block_hash, include_proof, max_depth))
	}
	async fn optcore(&self, a: u64, b: Option<u64>, c: Option<String>) -> RpcResult<(u64, Option<u64>, Option<String>)> {
		self.rec("optcore", json!([a, b, c]));
		Ok((a, b, c))
	}
	fn optstd(&self, a: u64, b: Option<String>) -> RpcResult<(u64, Option<String>)> {
		self.rec("optstd", json!([a, b]));
		Ok((a, b))
	}
	async fn mapraw(&self, r#type: String, r#ref: u64) -> RpcResult<(String, u64)> {
		self.rec("mapraw", json!([r#type, r#ref]));
		Ok((r#type, r#ref))
	}
	fn mapopt(&self, a: u64, b: Option<String>) -> RpcResult<(u64, Option<String>)> {
		self.rec("mapopt", json!([a, b]));
		Ok((a, b))
	}
	async fn camel_case(&self, my_arg: String) -> RpcResult<String> {
		self.rec("camelCaseName", json!([my_arg]));
		Ok(my_arg)
	}
	async fn aliased(&self, a: u64) -> RpcResult<u64> {
		self.rec("aliased", json!([a]));
		Ok(a.wrapping_mul(3))
	}
	async fn fails(&self, a: i32) -> RpcResult<u64> {
		self.rec("fails", json!([a]));
		Err(ErrorObjectOwned::owned(a, format!("failure {a}"), Some(json!({"arg": a}))))
	}
	async fn plainret(&self, a: u64) -> Result<u64, ErrorObjectOwned> {
		self.rec("plainret", json!([a]));
		Ok(a / 2)
	}
	async fn sub_items(&self, pending: PendingSubscriptionSink, a: u64, b: Option<String>) -> SubscriptionResult {
		self.rec("subscribe_items", json!([a, b]));
		pump(pending, a, b.unwrap_or_else(|| "none".into())).await
	}
	async fn sub_map(&self, pending: PendingSubscriptionSink, count: u64, tag: String) -> SubscriptionResult {
		self.rec("subscribe_map", json!([count, tag]));
		pump(pending, count, tag).await
	}
}

#[async_trait]
impl UnderServer for Impl {
	async fn echo(&self, a: u64, b: Option<String>) -> RpcResult<(u64, Option<String>)> {
		self.rec("ns_echo", json!([a, b]));
		Ok((a, b))
	}
	fn sync(&self, a: String) -> RpcResult<String> {
		self.rec("ns_sync", json!([a]));
		Ok(a)
	}
}

#[async_trait]
impl DotServer for Impl {
	async fn echo(&self, a: u64, b: Option<String>) -> RpcResult<(u64, Option<String>)> {
		self.rec("dot.echo", json!([a, b]));
		Ok((a, b))
	}
	async fn sub(&self, pending: PendingSubscriptionSink, a: u64) -> SubscriptionResult {
		self.rec("dot.sub", json!([a]));
		pump(pending, a, "dot".into()).await
	}
	async fn hold(&self, pending: PendingSubscriptionSink, a: u64) -> SubscriptionResult {
		self.rec("dot.hold", json!([a]));
		let sink = pending.accept().await?;
		for n in 0..a.min(4) {
			let msg = SubscriptionMessage::from(serde_json::value::to_raw_value(&Item { n, tag: "hold".into() }).unwrap());
			sink.send(msg).await?;
		}
		sink.closed().await;
		self.rec("dot.hold:closed", json!([a]));
		Ok(())
	}
}

impl SlashServer for Impl {
	fn echo(&self, a: Vec<String>) -> RpcResult<Vec<String>> {
		self.rec("slash/echo", json!([a]));
		Ok(a)
	}
}

const U64S: [u64; 4] = [0, 1, (1 << 53) + 1, u64::MAX];
const I64S: [i64; 5] = [i64::MIN, -1, 0, 1, i64::MAX];
const STRS: [&str; 6] = ["", "a", "é\"\\", "\u{1F600}", " spaced\tout\n", "\u{0}"];
const F64S: [f64; 5] = [0.0, -0.0, 1.5, 1e308, -2.5e-300];

fn nesteds() -> Vec<Nested> {
	let mut m = BTreeMap::new();
	m.insert("k\"".to_string(), u64::MAX);
	m.insert("".to_string(), 0);
	vec![
		Nested { x: 0, y: None, z: Kind::Unit, m: BTreeMap::new() },
		Nested { x: i64::MIN, y: Some("é".into()), z: Kind::Pair(-1, "p".into()), m: m.clone() },
		Nested { x: 7, y: Some("".into()), z: Kind::Rec { flag: true }, m },
	]
}

struct Ctx<C> {
	rt: tokio::runtime::Runtime,
	client: C,
	log: Log,
	_handle: jsonrpsee_server::ServerHandle,
}

fn module(log: &Log) -> jsonrpsee::RpcModule<Impl> {
	let mut module = PlainServer::into_rpc(Impl(log.clone()));
	module.merge(UnderServer::into_rpc(Impl(log.clone()))).unwrap();
	module.merge(DotServer::into_rpc(Impl(log.clone()))).unwrap();
	module.merge(SlashServer::into_rpc(Impl(log.clone()))).unwrap();
	module
}

fn ctx() -> Ctx<WsClient> {
	let rt = srv::rt();
	let log: Log = Arc::new(Mutex::new(Vec::new()));
	let (client, handle) = rt.block_on(async {
		let (stop, handle) = jsonrpsee_server::stop_channel();
		let svc = jsonrpsee_server::Server::builder().to_service_builder().build(module(&log), stop.clone());
		let (a, b) = tokio::io::duplex(1 << 20);
		tokio::spawn(async move {
			let _ = jsonrpsee_server::serve_with_graceful_shutdown(a, svc, stop.shutdown()).await;
		});
		let client: WsClient = WsClientBuilder::default().build_with_stream("ws://localhost", b).await.expect("ws client over duplex");
		(client, handle)
	});
	Ctx { rt, client, log, _handle: handle }
}

// ---- the HTTP client, bridged in process to the server's tower service (no socket)
type BridgeFut = std::pin::Pin<Box<dyn std::future::Future<Output = Result<jsonrpsee_http_client::HttpResponse<http_body_util::Full<bytes::Bytes>>, jsonrpsee_http_client::transport::Error>> + Send>>;
#[derive(Clone)]
struct Bridge(Arc<dyn Fn(jsonrpsee_http_client::HttpRequest) -> BridgeFut + Send + Sync>);
impl tower::Service<jsonrpsee_http_client::HttpRequest> for Bridge {
	type Response = jsonrpsee_http_client::HttpResponse<http_body_util::Full<bytes::Bytes>>;
	type Error = jsonrpsee_http_client::transport::Error;
	type Future = BridgeFut;
	fn poll_ready(&mut self, _cx: &mut std::task::Context<'_>) -> std::task::Poll<Result<(), Self::Error>> {
		std::task::Poll::Ready(Ok(()))
	}
	fn call(&mut self, req: jsonrpsee_http_client::HttpRequest) -> BridgeFut {
		(self.0)(req)
	}
}
#[derive(Clone)]
struct BridgeLayer(Bridge);
impl<S> tower::Layer<S> for BridgeLayer {
	type Service = Bridge;
	fn layer(&self, _inner: S) -> Bridge {
		self.0.clone()
	}
}

fn bridge(log: &Log) -> (Bridge, jsonrpsee_server::ServerHandle) {
	use http_body_util::BodyExt;
	use tower::Service;
	let (stop, handle) = jsonrpsee_server::stop_channel();
	let svc = jsonrpsee_server::Server::builder().to_service_builder().build(module(log), stop);
	let b = Bridge(Arc::new(move |req: jsonrpsee_http_client::HttpRequest| {
		let mut svc = svc.clone();
		Box::pin(async move {
			let resp = svc.call(req).await.map_err(|e| jsonrpsee_http_client::transport::Error::Url(format!("in-process service failed: {e}")))?;
			let (parts, body) = resp.into_parts();
			let bytes = body.collect().await.map(|b| b.to_bytes()).unwrap_or_default();
			Ok(http::Response::from_parts(parts, http_body_util::Full::new(bytes)))
		}) as BridgeFut
	}));
	(b, handle)
}

macro_rules! check_call {
	($rep:expr, $local:expr, $c:expr, $method:expr, $args:expr, $call:expr, $expect:expr) => {{
		$c.log.lock().unwrap().clear();
		let args: Value = $args;
		let got = $c.rt.block_on($call);
		let logged = $c.log.lock().unwrap().clone();
		let exp = $expect;
		let case = json!({"engine":"ENUM","method": $method, "arguments": args, "server_recorded": logged.iter().map(|(m, a)| json!([m, a])).collect::<Vec<_>>(), "client_received": format!("{:?}", got)});
		match &got {
			Ok(v) if *v == exp => {}
			other => $rep.violation(&format!("result-differs:{}", $method), &format!("{}({}): the client received {:?}, the server method returns {:?}", $method, args, other, exp), case.clone()),
		}
		if logged.len() != 1 || logged[0].0 != $method || logged[0].1 != args {
			$rep.violation(&format!("arguments-differ:{}", $method), &format!("{}({}): the server recorded {:?}", $method, args, logged), case.clone());
		}
		$local.case_unique(&format!("stub:{}", $method));
	}};
}

/// raw request through the same client: `name` with explicit params, compared with expected result and recorded args
fn raw_call<C: SubscriptionClientT>(rep: &Reporter, local: &mut Local, c: &Ctx<C>, what: &str, name: &str, params: Value, logged_as: &str, exp_args: Value, exp_result: Value) {
	c.log.lock().unwrap().clear();
	let got: Result<Value, _> = c.rt.block_on(async {
		match &params {
			Value::Array(a) => {
				let mut p = jsonrpsee::core::params::ArrayParams::new();
				for x in a {
					p.insert(x).unwrap();
				}
				c.client.request(name, p).await
			}
			Value::Object(o) => {
				let mut p = ObjectParams::new();
				for (k, x) in o {
					p.insert(k, x).unwrap();
				}
				c.client.request(name, p).await
			}
			_ => c.client.request(name, rpc_params![]).await,
		}
	});
	let logged = c.log.lock().unwrap().clone();
	let case = json!({"engine":"ENUM","request": name, "params": params, "server_recorded": logged.iter().map(|(m, a)| json!([m, a])).collect::<Vec<_>>(), "client_received": format!("{got:?}")});
	match &got {
		Ok(v) if *v == exp_result => {}
		other => rep.violation(&format!("{what}:result:{logged_as}"), &format!("request `{name}` with params {params}: received {other:?}, expected {exp_result}"), case.clone()),
	}
	if logged.len() != 1 || logged[0].0 != logged_as || logged[0].1 != exp_args {
		rep.violation(&format!("{what}:dispatch:{logged_as}"), &format!("request `{name}` with params {params}: the server recorded {logged:?}, expected one call of {logged_as} with {exp_args}"), case);
	}
	local.case_unique(&format!("raw:{what}"));
}

fn collect_items(c: &Ctx<WsClient>, mut sub: Subscription<Item>, n: usize) -> Vec<Item> {
	c.rt.block_on(async {
		let mut v = Vec::new();
		for _ in 0..n {
			match tokio::time::timeout(std::time::Duration::from_secs(10), sub.next()).await {
				Ok(Some(Ok(i))) => v.push(i),
				_ => break,
			}
		}
		v
	})
}

pub fn check(rep: &Reporter) {
	rep.set_rule(
		"a fixed family of #[rpc(client, server)] declarations compiled into the harness (0–4 params; trailing Option ×1 and ×2 (also spelled core::option::Option / std::option::Option); Option in the middle; raw identifiers as by-name argument names; param_kind array/map; #[argument(rename)] to a keyword, to PascalCase, kebab-case and SCREAMING_CASE names; camelCase name; aliases; namespaces with separators `_`, `.`, `/`; sync, async, blocking; RpcResult / Result<_, ErrorObjectOwned> and error returns; subscriptions with params, Option tail, map kind, overridden notification name, aliases) served in memory and called through the generated client stubs over a real WsClient (duplex stream), a real HttpClient (bridged in process to the server's tower service), and both clients built from URLs against Server::start on a loopback socket; full product of per-type argument alphabets per method (u64/i64/u8 boundaries, f64 incl. −0.0 and 1e308, bool, all strings of length ≤ 2 over 12 (thorough 20) symbols with quotes/backslashes/NUL/controls/astral/combining characters; thorough adds a decimal ladder of 1..17 significant digits at 7 magnitudes to the f64 alphabet; vectors, nested struct with enum and map), plus hand-encoded requests for the three spellings of a trailing optional under both encodings, every alias and every namespaced name. Oracle: recorded server arguments == client arguments, client result == server return, subscription items equal and in order, the generated stub's unsubscribe() ends the server-side subscription of a namespaced API, and (raw WebSocket peer) the notification method name on the wire is the declared one incl. namespace prefix and override.",
	);
	rep.assume("the `programs` quantifier is covered over this fixed family of declarations only");
	let thorough = rep.tier.thorough();
	let mut local = Local::default();
	// alphabets
	let u64s: Vec<u64> = vec![0, 1, 9, 10, 255, 256, u32::MAX as u64, 1 << 32, (1 << 53) - 1, 1 << 53, (1 << 53) + 1, 1 << 63, u64::MAX - 1, u64::MAX];
	let i64s: Vec<i64> = vec![i64::MIN, i64::MIN + 1, -(1 << 53) - 1, -256, -1, 0, 1, 255, (1 << 53) + 1, i64::MAX - 1, i64::MAX];
	let mut f64s: Vec<f64> = vec![0.0, -0.0, 1.5, 1e308, -2.5e-300, f64::MIN_POSITIVE, f64::MAX, f64::MIN, 5e-324, 0.1, 1e21, 123456789.123456789];
	if thorough {
		// a decimal ladder: values whose shortest decimal form has 1..17 significant digits, at several magnitudes
		for digits in 1..=17u32 {
			for exp in [-300i32, -20, -5, 0, 5, 20, 300] {
				let m: f64 = (1..=digits).fold(0.0, |acc, d| acc * 10.0 + ((d * 7) % 10) as f64);
				let v = m * 10f64.powi(exp - digits as i32);
				if v.is_finite() {
					f64s.push(v);
					f64s.push(-v);
				}
			}
		}
	}
	let strs: Vec<String> = {
		let sym: Vec<&str> = if thorough {
			vec!["a", "\"", "\\", "\n", "\u{0}", "é", "\u{1F600}", " ", "/", "\u{2028}", "{", "\u{7f}", "\t", "\r", "\u{1b}", "e\u{301}", "\u{feff}", "\u{fffd}", "]", ":"]
		} else {
			vec!["a", "\"", "\\", "\n", "\u{0}", "é", "\u{1F600}", " ", "/", "\u{2028}", "{", "\u{7f}"]
		};
		let mut v = vec![String::new()];
		for a in &sym {
			v.push(a.to_string());
			for b in &sym {
				v.push(format!("{a}{b}"));
			}
		}
		v
	};
	let _ = (U64S, I64S, F64S, STRS);
	let c = ctx();
	stubs(rep, &mut local, &c, "ws", &u64s, &i64s, &f64s, &strs);
	subs(rep, &mut local, &c);
	// the same stubs through the HTTP client
	{
		let rt = srv::rt();
		let log: Log = Arc::new(Mutex::new(Vec::new()));
		let _e = rt.enter();
		let (b, handle) = bridge(&log);
		let client = jsonrpsee_http_client::HttpClientBuilder::default()
			.set_http_middleware(tower::ServiceBuilder::new().layer(BridgeLayer(b)))
			.build("http://localhost:1")
			.expect("http client builds");
		drop(_e);
		let c = Ctx { rt, client, log, _handle: handle };
		stubs(rep, &mut local, &c, "http", &u64s, &i64s, &f64s, &strs);
	}
	// what the wire carries for subscriptions: the notification method name (with its namespace prefix and its override),
	// read through a raw WebSocket peer — the jsonrpsee client routes by subscription id and never looks at it
	{
		let rt = srv::rt();
		let log: Log = Arc::new(Mutex::new(Vec::new()));
		let res: Result<(), String> = rt.block_on(async {
			let (stop, handle) = jsonrpsee_server::stop_channel();
			let svc = jsonrpsee_server::Server::builder().to_service_builder().build(module(&log), stop.clone());
			let mut conn = srv::ws_connect(svc, stop).await?;
			for (k, (request, expect_notif_method)) in [
				(json!({"jsonrpc":"2.0","id":1,"method":"subscribe_items","params":[1,"t"]}), "items"),
				(json!({"jsonrpc":"2.0","id":2,"method":"sub_alias","params":[1]}), "items"),
				(json!({"jsonrpc":"2.0","id":3,"method":"subscribe_map","params":{"count":1,"tag":"m"}}), "mapitems"),
				(json!({"jsonrpc":"2.0","id":4,"method":"dot.sub","params":[1]}), "dot.notif"),
				(json!({"jsonrpc":"2.0","id":5,"method":"dotSubAlias","params":[1]}), "dot.notif"),
			]
			.into_iter()
			.enumerate()
			{
				conn.send(request.to_string().as_bytes()).await?;
				let mut sub_id: Option<Value> = None;
				let mut seen: Option<String> = None;
				for _ in 0..4 {
					let Ok(Some(f)) = tokio::time::timeout(std::time::Duration::from_secs(10), conn.recv()).await else { break };
					let v: Value = serde_json::from_slice(&f).unwrap_or(Value::Null);
					if v["id"] == request["id"] {
						sub_id = v.get("result").cloned();
					} else if v.get("method").is_some() && sub_id.as_ref().map_or(true, |s| v["params"]["subscription"] == *s) {
						seen = v["method"].as_str().map(|m| m.to_string());
						break;
					}
				}
				if seen.as_deref() != Some(expect_notif_method) {
					rep.violation(
						"subscription:notification-method-name",
						&format!("subscribe via `{}`: the notification on the wire carries method {seen:?}, the declaration says `{expect_notif_method}`", request["method"].as_str().unwrap_or("")),
						json!({"engine":"ENUM","part":"wire-names","request": request, "observed_method": seen, "expected_method": expect_notif_method}),
					);
				}
				let _ = k;
			}
			let _ = handle.stop();
			Ok(())
		});
		if let Err(e) = res {
			rep.machinery_error(format!("C17 wire-name leg: {e}"));
		}
		for _ in 0..5 {
			local.case_unique("subscription:wire-name");
		}
	}
	// and once more with nothing in-process: `Server::start` on a loopback socket, the WebSocket client and the HTTP client
	// built from URLs (their real transports: TCP connect, soketto handshake, hyper client)
	{
		let rt = srv::rt();
		let log: Log = Arc::new(Mutex::new(Vec::new()));
		let started = rt.block_on(async {
			let server = jsonrpsee_server::Server::builder().build("127.0.0.1:0").await.map_err(|e| e.to_string())?;
			let addr = server.local_addr().map_err(|e| e.to_string())?;
			let handle = server.start(module(&log));
			let ws: WsClient = WsClientBuilder::default().build(format!("ws://{addr}")).await.map_err(|e| e.to_string())?;
			let http = jsonrpsee_http_client::HttpClientBuilder::default().build(format!("http://{addr}")).map_err(|e| e.to_string())?;
			Ok::<_, String>((handle, ws, http))
		});
		match started {
			Ok((handle, ws, http)) => {
				let c = Ctx { rt, client: ws, log: log.clone(), _handle: handle.clone() };
				stubs(rep, &mut local, &c, "tcp-ws", &u64s, &i64s, &f64s, &strs);
				subs(rep, &mut local, &c);
				let Ctx { rt, client, .. } = c;
				drop(client);
				let c = Ctx { rt, client: http, log, _handle: handle };
				stubs(rep, &mut local, &c, "tcp-http", &u64s, &i64s, &f64s, &strs);
			}
			Err(e) => rep.machinery_error(format!("C17 loopback leg could not start: {e}")),
		}
	}
	// the notification method name override is what the wire carries: checked through a raw frame in C04; here the stubs suffice
	rep.merge(local);
	rep.sample(json!({"method":"opt2","arguments":[u64::MAX, null, "é\"\\"],"expected":"server records the same three values; client receives them back"}));
	rep.sample(json!({"request":"dotAlias","params":{"a":2,"b":"w"},"expected":"dispatches to dot.echo (aliases are not prefixed by the namespace)"}));
}

/// Every non-subscription stub and the hand-encoded requests, through any client.
#[allow(clippy::too_many_arguments)]
fn stubs<C: SubscriptionClientT + Sync>(rep: &Reporter, local: &mut Local, c: &Ctx<C>, transport: &str, u64s: &[u64], i64s: &[i64], f64s: &[f64], strs: &[String]) {
	let _ = transport;
	// ---- stubs, full products
	check_call!(rep, local, c, "p0", json!([]), PlainClient::p0(&c.client), 7u64);
	for a in u64s.iter().copied() {
		check_call!(rep, local, c, "p1", json!([a]), PlainClient::p1(&c.client, a), a);
		check_call!(rep, local, c, "aliased", json!([a]), PlainClient::aliased(&c.client, a), a.wrapping_mul(3));
		check_call!(rep, local, c, "plainret", json!([a]), PlainClient::plainret(&c.client, a), a / 2);
		for b in std::iter::once(None).chain(strs.iter().map(|s| Some(s.to_string()))) {
			check_call!(rep, local, c, "opt1", json!([a, b]), PlainClient::opt1(&c.client, a, b.clone()), (a, b.clone()));
			check_call!(rep, local, c, "mapopt", json!([a, b]), PlainClient::mapopt(&c.client, a, b.clone()), (a, b.clone()));
			check_call!(rep, local, c, "ns_echo", json!([a, b]), UnderClient::echo(&c.client, a, b.clone()), (a, b.clone()));
			check_call!(rep, local, c, "dot.echo", json!([a, b]), DotClient::echo(&c.client, a, b.clone()), (a, b.clone()));
			for m in [None, Some(0u64), Some(u64::MAX)] {
				check_call!(rep, local, c, "opt2", json!([a, m, b]), PlainClient::opt2(&c.client, a, m, b.clone()), (a, m, b.clone()));
				check_call!(rep, local, c, "optcore", json!([a, m, b]), PlainClient::optcore(&c.client, a, m, b.clone()), (a, m, b.clone()));
			}
			check_call!(rep, local, c, "optstd", json!([a, b]), PlainClient::optstd(&c.client, a, b.clone()), (a, b.clone()));
		}
		for s in strs.iter().map(|s| s.as_str()) {
			check_call!(rep, local, c, "map2", json!([a, s]), PlainClient::map2(&c.client, a, s.to_string()), (a, s.to_string()));
			check_call!(rep, local, c, "mapraw", json!([s, a]), PlainClient::mapraw(&c.client, s.to_string(), a), (s.to_string(), a));
			for (p, d) in [(false, None), (true, Some(a))] {
				check_call!(rep, local, c, "map3", json!([s, p, d]), PlainClient::map3(&c.client, s.to_string(), p, d), (s.to_string(), p, d));
			}
			for o in [None, Some(a)] {
				check_call!(rep, local, c, "optmid", json!([o, s]), PlainClient::optmid(&c.client, o, s.to_string()), (o, s.to_string()));
			}
		}
	}
	for a in i64s.iter().copied() {
		for s in strs.iter().map(|s| s.as_str()) {
			check_call!(rep, local, c, "p2", json!([a, s]), PlainClient::p2(&c.client, a, s.to_string()), (a, s.to_string()));
		}
	}
	for s in strs.iter().map(|s| s.as_str()) {
		check_call!(rep, local, c, "camelCaseName", json!([s]), PlainClient::camel_case(&c.client, s.to_string()), s.to_string());
		check_call!(rep, local, c, "ns_sync", json!([s]), UnderClient::sync(&c.client, s.to_string()), s.to_string());
		let v = vec![s.to_string(), "x".to_string()];
		check_call!(rep, local, c, "slash/echo", json!([v]), SlashClient::echo(&c.client, v.clone()), v.clone());
	}
	for a in [0u8, 255] {
		for b in [false, true] {
			for v in [vec![], vec![1u64, u64::MAX]] {
				for d in nesteds() {
					check_call!(rep, local, c, "p4", json!([a, b, v, d]), PlainClient::p4(&c.client, a, b, v.clone(), d.clone()), (a, b, v.clone(), d.clone()));
				}
			}
		}
	}
	for f in f64s.iter().copied() {
		c.log.lock().unwrap().clear();
		let got = c.rt.block_on(PlainClient::f1(&c.client, f));
		let logged = c.log.lock().unwrap().clone();
		let ok = matches!(&got, Ok(x) if x.to_bits() == f.to_bits()) && logged.len() == 1 && logged[0].1 == json!([f.to_bits()]);
		if !ok {
			rep.violation("result-differs:f1", &format!("f1({f:?}): client got {got:?}, server recorded {logged:?}"), json!({"method":"f1","argument": format!("{f:?}"), "argument_bits": f.to_bits().to_string()}));
		}
		local.case_unique("stub:f1");
	}
	// error returns
	for a in [-32000i32, 1, i32::MAX, -1] {
		c.log.lock().unwrap().clear();
		let got = c.rt.block_on(PlainClient::fails(&c.client, a));
		let exp = ErrorObjectOwned::owned(a, format!("failure {a}"), Some(json!({"arg": a})));
		let ok = matches!(&got, Err(jsonrpsee::core::ClientError::Call(e)) if *e == exp);
		if !ok {
			rep.violation("error-differs:fails", &format!("fails({a}): the client received {got:?}, the server returned the error object {exp:?}"), json!({"method":"fails","argument": a}));
		}
		local.case_unique("stub:fails");
	}
	// ---- hand-encoded: trailing optional passed / null / omitted, both encodings
	for (name, logged_as, map_kind) in [("opt1", "opt1", false), ("mapopt", "mapopt", true), ("ns_echo", "ns_echo", false), ("dot.echo", "dot.echo", true)] {
		for a in [0u64, u64::MAX] {
			let spellings: Vec<(Value, Option<String>)> = if map_kind {
				vec![(json!({"a": a, "b": "x"}), Some("x".into())), (json!({"a": a, "b": null}), None), (json!({"a": a}), None), (json!({"b": "y", "a": a}), Some("y".into()))]
			} else {
				vec![(json!([a, "x"]), Some("x".into())), (json!([a, null]), None), (json!([a]), None)]
			};
			for (params, b) in spellings {
				raw_call(rep, local, c, "optional-spelling", name, params, logged_as, json!([a, b]), json!([a, b]));
			}
		}
	}
	raw_call(rep, local, c, "optional-spelling", "opt2", json!([5]), "opt2", json!([5, null, null]), json!([5, null, null]));
	raw_call(rep, local, c, "optional-spelling", "opt2", json!([5, 6]), "opt2", json!([5, 6, null]), json!([5, 6, null]));
	raw_call(rep, local, c, "optional-spelling", "opt2", json!([5, null, "z"]), "opt2", json!([5, null, "z"]), json!([5, null, "z"]));
	// trailing optionals spelled core::option::Option / std::option::Option: omitted, partly omitted, null
	raw_call(rep, local, c, "optional-spelling", "optcore", json!([5]), "optcore", json!([5, null, null]), json!([5, null, null]));
	raw_call(rep, local, c, "optional-spelling", "optcore", json!([5, 6]), "optcore", json!([5, 6, null]), json!([5, 6, null]));
	raw_call(rep, local, c, "optional-spelling", "optcore", json!([5, null, "z"]), "optcore", json!([5, null, "z"]), json!([5, null, "z"]));
	raw_call(rep, local, c, "optional-spelling", "optstd", json!([5]), "optstd", json!([5, null]), json!([5, null]));
	raw_call(rep, local, c, "optional-spelling", "optstd", json!([5, null]), "optstd", json!([5, null]), json!([5, null]));
	raw_call(rep, local, c, "rename", "map2", json!({"first": 3, "type": "t"}), "map2", json!([3, "t"]), json!([3, "t"]));
	raw_call(rep, local, c, "rename", "map3", json!({"BlockHash": "0x1", "include-proof": true, "MAX_DEPTH": 9}), "map3", json!(["0x1", true, 9]), json!(["0x1", true, 9]));
	raw_call(rep, local, c, "rename", "map3", json!({"include-proof": false, "BlockHash": "h"}), "map3", json!(["h", false, null]), json!(["h", false, null]));
	// ---- aliases and namespaces resolve to the same handler
	for (alias, logged_as, params, exp) in [
		("aliased_v2", "aliased", json!([5]), json!(15)),
		("other.alias", "aliased", json!([5]), json!(15)),
		("under_alias", "ns_echo", json!([1, "q"]), json!([1, "q"])),
		("dotAlias", "dot.echo", json!({"a": 2, "b": "w"}), json!([2, "w"])),
		("ns_echo", "ns_echo", json!([1]), json!([1, null])),
		("dot.echo", "dot.echo", json!({"a": 9}), json!([9, null])),
		("slash/echo", "slash/echo", json!([["x"]]), json!(["x"])),
	] {
		let exp_args = match &params {
			Value::Object(o) => json!([o["a"], o.get("b").cloned().unwrap_or(Value::Null)]),
			Value::Array(a) if logged_as == "ns_echo" => json!([a[0], a.get(1).cloned().unwrap_or(Value::Null)]),
			other => other.clone(),
		};
		raw_call(rep, local, c, "alias-or-namespace", alias, params, logged_as, exp_args, exp);
	}
}

fn subs(rep: &Reporter, local: &mut Local, c: &Ctx<WsClient>) {
	// ---- subscriptions: stub, alias names, map kind, namespaced
	for a in [0u64, 1, 3] {
		for b in [None, Some("t\"é".to_string())] {
			c.log.lock().unwrap().clear();
			let sub = c.rt.block_on(PlainClient::sub_items(&c.client, a, b.clone()));
			match sub {
				Ok(sub) => {
					let items = collect_items(c, sub, a as usize);
					let tag = b.clone().unwrap_or_else(|| "none".into());
					let exp: Vec<Item> = (0..a).map(|n| Item { n, tag: tag.clone() }).collect();
					let logged = c.log.lock().unwrap().clone();
					if items != exp || logged.first().map(|l| &l.1) != Some(&json!([a, b])) {
						rep.violation("subscription:stub", &format!("sub_items({a}, {b:?}): items {items:?}, expected {exp:?}; server recorded {logged:?}"), json!({"method":"subscribe_items","arguments":[a, b]}));
					}
				}
				Err(e) => rep.violation("subscription:stub-failed", &format!("sub_items({a}, {b:?}) failed: {e:?}"), json!({"method":"subscribe_items"})),
			}
			local.case_unique("subscription:stub");
		}
		// map kind
		let sub = c.rt.block_on(PlainClient::sub_map(&c.client, a, "m".into()));
		match sub {
			Ok(sub) => {
				let items = collect_items(c, sub, a as usize);
				let exp: Vec<Item> = (0..a).map(|n| Item { n, tag: "m".into() }).collect();
				if items != exp {
					rep.violation("subscription:map-kind", &format!("sub_map({a}): items {items:?}, expected {exp:?}"), json!({"method":"submap"}));
				}
			}
			Err(e) => rep.violation("subscription:map-kind-failed", &format!("sub_map({a}) failed: {e:?}"), json!({"method":"submap"})),
		}
		local.case_unique("subscription:map");
		// namespaced subscription through the stub and through its aliases
		for (subname, unsub) in [("dot.sub", "dot.unsub"), ("dotSubAlias", "dotUnsubAlias"), ("dot.sub", "dotUnsubAlias")] {
			c.log.lock().unwrap().clear();
			let sub: Result<Subscription<Item>, _> = c.rt.block_on(c.client.subscribe(subname, rpc_params![a], unsub));
			match sub {
				Ok(sub) => {
					let items = collect_items(c, sub, a as usize);
					let exp: Vec<Item> = (0..a).map(|n| Item { n, tag: "dot".into() }).collect();
					let logged = c.log.lock().unwrap().clone();
					if items != exp || logged.first().map(|l| l.0.as_str()) != Some("dot.sub") {
						rep.violation("subscription:alias-or-namespace", &format!("subscribe via `{subname}`: items {items:?}, expected {exp:?}; server recorded {logged:?}"), json!({"subscribe_name": subname}));
					}
				}
				Err(e) => rep.violation("subscription:alias-or-namespace", &format!("subscribe via `{subname}`/`{unsub}` failed: {e:?}"), json!({"subscribe_name": subname})),
			}
			local.case_unique("subscription:alias");
		}
		// a namespaced subscription that stays open: the stub's unsubscribe must reach the server's unsubscribe method
		// (observed through a second, hand-written unsubscribe: it finds nothing left to remove) and end the handler
		{
			c.log.lock().unwrap().clear();
			match c.rt.block_on(DotClient::hold(&c.client, a)) {
				Ok(mut sub) => {
					let (items, second, closed) = c.rt.block_on(async {
						let mut v = Vec::new();
						for _ in 0..a {
							match tokio::time::timeout(std::time::Duration::from_secs(10), sub.next()).await {
								Ok(Some(Ok(i))) => v.push(i),
								_ => break,
							}
						}
						let id = match sub.kind() {
							jsonrpsee::core::client::SubscriptionKind::Subscription(id) => Some(id.clone().into_owned()),
							_ => None,
						};
						let _ = sub.unsubscribe().await;
						let second: Result<bool, _> = match id {
							Some(id) => jsonrpsee::core::client::ClientT::request(&c.client, "dot.unhold", rpc_params![id]).await,
							None => Ok(true),
						};
						let mut closed = false;
						for _ in 0..200 {
							if c.log.lock().unwrap().iter().any(|l| l.0 == "dot.hold:closed") {
								closed = true;
								break;
							}
							tokio::task::yield_now().await;
						}
						(v, second, closed)
					});
					let exp: Vec<Item> = (0..a).map(|n| Item { n, tag: "hold".into() }).collect();
					if items != exp {
						rep.violation("subscription:stub", &format!("dot.hold({a}): items {items:?}, expected {exp:?}"), json!({"method":"dot.hold","arguments":[a]}));
					}
					match second {
						Ok(false) if closed => {}
						other => rep.violation(
							"subscription:stub-unsubscribe-not-delivered",
							&format!("dot.hold({a}): after the generated stub's unsubscribe() a second `dot.unhold` for the same id answered {other:?} (expected Ok(false): already removed) and the server handler {} told that the subscription closed", if closed { "was" } else { "was NOT" }),
							json!({"method":"dot.hold","arguments":[a]}),
						),
					}
				}
				Err(e) => rep.violation("subscription:stub-failed", &format!("dot.hold({a}) failed: {e:?}"), json!({"method":"dot.hold"})),
			}
			local.case_unique("subscription:stub-unsubscribe");
		}
		// the un-namespaced subscription through its alias, Option tail passed / omitted
		for params in [json!([a, "al"]), json!([a])] {
			c.log.lock().unwrap().clear();
			let mut p = jsonrpsee::core::params::ArrayParams::new();
			for x in params.as_array().unwrap() {
				p.insert(x).unwrap();
			}
			let sub: Result<Subscription<Item>, _> = c.rt.block_on(c.client.subscribe("sub_alias", p, "unsub_alias"));
			let tag = params.get(1).and_then(|x| x.as_str()).unwrap_or("none").to_string();
			match sub {
				Ok(sub) => {
					let items = collect_items(c, sub, a as usize);
					let exp: Vec<Item> = (0..a).map(|n| Item { n, tag: tag.clone() }).collect();
					let logged = c.log.lock().unwrap().clone();
					if items != exp || logged.first().map(|l| l.0.as_str()) != Some("subscribe_items") {
						rep.violation("subscription:alias-or-namespace", &format!("subscribe via alias `sub_alias` with {params}: items {items:?}, expected {exp:?}; server recorded {logged:?}"), json!({"subscribe_name": "sub_alias"}));
					}
				}
				Err(e) => rep.violation("subscription:alias-or-namespace", &format!("subscribe via alias `sub_alias` failed: {e:?}"), json!({"subscribe_name": "sub_alias"})),
			}
			local.case_unique("subscription:alias");
		}
	}
}
