//! C14 — host filter: only allow-listed authorities ever reach the RPC service (ENUM, PURE layer over a probe).

use crate::par::par_for;
use crate::report::Reporter;
use bytes::Bytes;
use futures_util::FutureExt;
use http::header::{HOST, HeaderValue};
use http_body_util::Empty;
use jsonrpsee_server::middleware::http::HostFilterLayer;
use jsonrpsee_server::{HttpBody, HttpRequest, HttpResponse};
use serde_json::json;
use std::sync::Arc;
use std::sync::atomic::{AtomicUsize, Ordering};
use tower::{Layer, Service};

#[derive(Clone, Copy, Debug, PartialEq)]
enum RPort {
	Default,
	Any,
	Fixed(u16),
}

#[derive(Clone, Debug, PartialEq)]
struct RAuth {
	host: String,
	port: RPort,
	userinfo: bool,
	/// host is letters/digits/dot/dash (or a bracketed literal): the plain case completeness is demanded for
	plain: bool,
}

fn default_port(scheme: Option<&str>) -> Option<u16> {
	match scheme {
		Some("http") | Some("ws") => Some(80),
		Some("https") | Some("wss") => Some(443),
		Some("ftp") => Some(21),
		_ => None,
	}
}

/// Independent authority split (RFC 3986 shape), written from the property statement.
fn ref_parse(s: &str) -> Option<RAuth> {
	let (scheme, rest) = match s.find("://") {
		Some(i) => (Some(&s[..i]), &s[i + 3..]),
		None => (None, s),
	};
	let end = rest.find(|c| c == '/' || c == '?' || c == '#').unwrap_or(rest.len());
	let auth = &rest[..end];
	let (userinfo, hp) = match auth.rfind('@') {
		Some(i) => (true, &auth[i + 1..]),
		None => (false, auth),
	};
	let (host, port_s) = if hp.starts_with('[') {
		let close = hp.find(']')?;
		let host = &hp[..=close];
		let rem = &hp[close + 1..];
		if rem.is_empty() {
			(host, None)
		} else if let Some(p) = rem.strip_prefix(':') {
			(host, Some(p))
		} else {
			return None;
		}
	} else {
		match hp.find(':') {
			Some(i) => (&hp[..i], Some(&hp[i + 1..])),
			None => (hp, None),
		}
	};
	if host.is_empty() || host.bytes().any(|b| b <= b' ' || b >= 0x7f) {
		return None;
	}
	let port = match port_s {
		None => RPort::Default,
		Some("*") => RPort::Any,
		Some(p) => {
			if p.is_empty() || !p.bytes().all(|b| b.is_ascii_digit()) {
				return None;
			}
			let n: u16 = p.parse().ok()?;
			if default_port(scheme) == Some(n) { RPort::Default } else { RPort::Fixed(n) }
		}
	};
	let plain = host.starts_with('[') || host.bytes().all(|b| b.is_ascii_alphanumeric() || b == b'.' || b == b'-');
	Some(RAuth { host: host.to_string(), port, userinfo, plain })
}

/// pattern labels separated by '.'; a label beginning with '*' matches one or more arbitrary characters
fn host_match(pat: &str, host: &str) -> bool {
	fn go(p: &[&str], first: bool, h: &str) -> bool {
		let Some((lab, rest)) = p.split_first() else { return h.is_empty() };
		// consume the separator before every label but the first
		let h = if first {
			h
		} else {
			match h.strip_prefix('.') {
				Some(x) => x,
				None => return false,
			}
		};
		if lab.starts_with('*') {
			// one or more arbitrary characters
			for k in 1..=h.len() {
				if h.is_char_boundary(k) && go(rest, false, &h[k..]) {
					return true;
				}
			}
			false
		} else {
			match h.strip_prefix(lab) {
				Some(x) => go(rest, false, x),
				None => false,
			}
		}
	}
	let labels: Vec<&str> = pat.split('.').collect();
	go(&labels, true, host)
}

fn port_match(entry: RPort, req: RPort) -> bool {
	match (entry, req) {
		(RPort::Any, _) => true,
		(RPort::Default, RPort::Default) => true,
		(RPort::Fixed(a), RPort::Fixed(b)) => a == b,
		_ => false,
	}
}

fn entry_matches(e: &RAuth, r: &RAuth) -> bool {
	host_match(&e.host, &r.host) && port_match(e.port, r.port)
}

const PATTERNS: [&str; 18] = [
	"example.com",
	"example.com:8080",
	"example.com:*",
	"*.example.com",
	"*.example.com:*",
	"example.*",
	"localhost:*",
	"127.0.0.1:9933",
	"[::1]:80",
	"http://example.com:80",
	"https://example.com",
	"*.com:8080",
	"EXAMPLE.com",
	"*",
	// WebSocket schemes and their default ports
	"ws://example.com:80",
	"wss://example.com:443",
	"ws://example.com:443",
	"wss://example.com",
];
const HOSTS: [&str; 14] = [
	"example.com",
	"EXAMPLE.com",
	"a.example.com",
	"a.b.example.com",
	"example.com.evil.org",
	"evilexample.com",
	"evil.org",
	"localhost",
	"127.0.0.1",
	"[::1]",
	"",
	"*",
	".example.com",
	"example.org",
];
const USERINFO: [&str; 6] = ["", "u@", "u:p@", "example.com@", "example.com:80@", "u:8080@"];
const PORTS: [&str; 14] = ["", ":80", ":443", ":8080", ":0", ":65535", ":65536", ":*", ":abc", ":", ":80:80", ": 80", ":9933", ":08080"];
const SCHEMES: [&str; 5] = ["", "http://", "https://", "ws://", "wss://"];

#[derive(Clone, Copy, Debug, PartialEq)]
enum UriKind {
	Origin,
	AbsSame,
	AbsOther,
	AbsDefaultPort,
}
const URIS: [UriKind; 4] = [UriKind::Origin, UriKind::AbsSame, UriKind::AbsOther, UriKind::AbsDefaultPort];


/// The C14 judgement of one request, shared by the layer-over-a-probe leg and the loopback-TCP leg.
#[allow(clippy::too_many_arguments)]
fn judge_request(rep: &Reporter, prefix: &str, list: &[&'static str], entries: &[Option<RAuth>], hv: &[u8], mult: usize, uk: UriKind, uri: &str, uri_p: &http::Uri, status: u16, called: usize) -> (&'static str, serde_json::Value) {
	let hstr = std::str::from_utf8(hv).ok();
	// candidate authorities per reference
	let hdr_auth = if mult == 1 { hstr.and_then(ref_parse) } else { None };
	// the target's authority is read both with and without its scheme (the statement does not say whether the
	// target's scheme makes an explicit :80/:443 "default"); either reading justifies an admission
	let uri_auth = uri_p.authority().and_then(|a| ref_parse(a.as_str()));
	let uri_auth_s = uri_p.authority().map(|a| format!("{}://{}", uri_p.scheme_str().unwrap_or("http"), a.as_str())).and_then(|s| ref_parse(&s));
	let cands: Vec<&RAuth> = hdr_auth.iter().chain(uri_auth.iter()).chain(uri_auth_s.iter()).collect();
	let hdr_clean = hstr.map_or(false, |s| !s.contains("://") && !s.contains(|c| c == '/' || c == '?' || c == '#'))
		&& hdr_auth.as_ref().map_or(false, |h| h.plain && !h.userinfo && h.port != RPort::Any);
	let differs = |h: &RAuth| [&uri_auth, &uri_auth_s].iter().all(|u| u.as_ref().map_or(false, |u| h.host != u.host || h.port != u.port));
	let matched = |a: &RAuth| entries.iter().flatten().any(|e| entry_matches(e, a));
	let case = json!({"engine":"ENUM","allow_list": list, "host_header": String::from_utf8_lossy(hv), "host_headers_sent": mult, "uri": uri, "status": status, "probe_calls": called});
	let feat = |a: Option<&RAuth>| match a {
		Some(a) if a.userinfo => "userinfo",
		Some(a) if a.port == RPort::Any => "request-port-star",
		Some(_) => "plain",
		None => "unparsed",
	};
	let mut class = "rejected";
	if called > 1 {
		rep.violation(&format!("{prefix}probe-called-twice"), "inner service called more than once", case.clone());
	}
	if called == 1 {
		class = "admitted";
		if status != 200 {
			rep.violation(&format!("{prefix}admitted-but-status"), &format!("inner service called but status {status}"), case.clone());
		}
		if !cands.iter().any(|a| matched(a)) {
			rep.violation(
				&format!("{prefix}admitted-without-match:{}:{:?}", feat(hdr_auth.as_ref().or(uri_auth.as_ref())), uk),
				&format!("allow-list {:?}: request with Host {:?} (×{mult}) target {uri} reached the inner service although no entry matches", list, String::from_utf8_lossy(hv)),
				case.clone(),
			);
		}
		// disagreeing, individually valid, plain authorities must not be admitted
		if let (Some(h), Some(_)) = (&hdr_auth, &uri_auth) {
			if hdr_clean && differs(h) {
				rep.violation(&format!("{prefix}admitted-with-disagreeing-authorities"), &format!("Host {:?} and target {uri} disagree but the request was admitted", String::from_utf8_lossy(hv)), case.clone());
			}
		}
	} else {
		if status != 403 && status != 400 {
			rep.violation(&format!("{prefix}rejected-with-wrong-status"), &format!("inner service not called but status is {status}"), case.clone());
		}
		if let (Some(h), Some(u)) = (&hdr_auth, &uri_auth) {
			if hdr_clean && differs(h) && status != 400 && matched(h) && matched(u) {
				rep.violation(&format!("{prefix}disagreeing-authorities-not-400"), &format!("Host {:?} vs target {uri}: status {status}, expected 400", String::from_utf8_lossy(hv)), case.clone());
			}
		}
		// completeness: single entry, one plain header without userinfo that matches, origin-form target
		if list.len() == 1 && mult == 1 && uk == UriKind::Origin {
			if let Some(h) = &hdr_auth {
				if hdr_clean && matched(h) {
					rep.violation(
						&format!("{prefix}matching-authority-rejected"),
						&format!("allow-list {:?}: Host {:?} matches the only entry but got {status}", list, String::from_utf8_lossy(hv)),
						case.clone(),
					);
				}
			}
		}
	}
	(class, case)
}

pub fn check(rep: &Reporter) {
	rep.set_rule(&format!(
		"allow-lists = the empty list and all lists of 1 or 2 entries (both orders; thorough: also every 3-entry combination) over {} patterns (those HostFilterLayer::new accepts) × Host header strings = {} schemes × {} hosts × {} userinfo forms × {} port forms, plus control/non-ASCII values × header multiplicity {{1, 0, 2}} × request-target {{origin form, absolute same authority, absolute other authority, absolute with explicit default port}}. plus allow-lists given as SocketAddr values (IPv4 and IPv6, 1–2 entries) × 14 Host values; plus an SRV-TCP leg: the layer as HTTP middleware of Server::start, the empty and the single-entry lists × scheme-less Host values × request-target forms as raw HTTP/1.1 over loopback, and the same lists × authorities over HTTP/2 (prior knowledge; :authority only, :authority plus an equal Host header, another :authority plus the Host header). Oracle: independent RFC-3986 authority split + label/port matcher written from the statement; a case is non-trivial when the layer was actually invoked (header constructible); distinct by (list, header, multiplicity, target).",
		PATTERNS.len(),
		SCHEMES.len(),
		HOSTS.len(),
		USERINFO.len(),
		PORTS.len()
	));
	rep.assume("soundness (admitted ⇒ some entry matches some candidate authority) is demanded on every case; completeness only for single-entry lists and plain authorities without userinfo, as the statement says");
	// lists
	// the empty list is a configuration too: filtering is enabled and nothing is allowed
	let mut lists: Vec<Vec<&'static str>> = vec![vec![]];
	for i in 0..PATTERNS.len() {
		lists.push(vec![PATTERNS[i]]);
	}
	for i in 0..PATTERNS.len() {
		for j in i + 1..PATTERNS.len() {
			lists.push(vec![PATTERNS[i], PATTERNS[j]]);
			lists.push(vec![PATTERNS[j], PATTERNS[i]]);
			if rep.tier.thorough() {
				for k in j + 1..PATTERNS.len() {
					lists.push(vec![PATTERNS[i], PATTERNS[j], PATTERNS[k]]);
				}
			}
		}
	}
	// header values
	let mut headers: Vec<Vec<u8>> = Vec::new();
	for s in SCHEMES {
		for h in HOSTS {
			for u in USERINFO {
				for p in PORTS {
					headers.push(format!("{s}{u}{h}{p}").into_bytes());
				}
			}
		}
	}
	for extra in [&b"example.com\x7f"[..], b"ex\xc3\xa9mple.com", b"example.com\t", b" example.com", b"example.com/path", b"example.com:8080/", b"http://example.com:80/x?y#z", b"example.com,evil.org", b"\xffexample.com"] {
		headers.push(extra.to_vec());
	}
	let built: Vec<Option<(HostFilterLayer, Vec<Option<RAuth>>)>> = lists
		.iter()
		.map(|l| HostFilterLayer::new(l.iter().copied()).ok().map(|layer| (layer, l.iter().map(|p| ref_parse(p)).collect())))
		.collect();
	rep.extra("allow_lists", json!(lists.len()));
	rep.extra("allow_lists_accepted_by_layer", json!(built.iter().filter(|b| b.is_some()).count()));
	rep.extra("host_header_values", json!(headers.len()));

	let n = lists.len() * headers.len();
	par_for(rep, n, 256, || (), |i, _, local| {
		let li = i / headers.len();
		let hi = i % headers.len();
		let Some((layer, entries)) = &built[li] else { return };
		let hv = &headers[hi];
		let Ok(hval) = HeaderValue::from_bytes(hv) else {
			return;
		};
		let hstr = std::str::from_utf8(hv).ok();
		for mult in 0..3usize {
			for uk in URIS {
				// request-target
				let base_auth = "example.com:8080";
				let uri = match uk {
					UriKind::Origin => "/".to_string(),
					UriKind::AbsSame => match hstr.and_then(ref_parse) {
						// the same authority as the header, spelled without userinfo / scheme
						Some(a) if a.plain && !a.host.is_empty() => {
							let p = match a.port {
								RPort::Default => "".to_string(),
								RPort::Any => continue,
								RPort::Fixed(n) => format!(":{n}"),
							};
							format!("http://{}{}/", a.host, p)
						}
						_ => continue,
					},
					UriKind::AbsOther => format!("http://{base_auth}/rpc"),
					UriKind::AbsDefaultPort => "https://example.com:443/".to_string(),
				};
				let Ok(uri_p) = uri.parse::<http::Uri>() else { continue };
				let mut rb = http::Request::builder().method("POST").uri(uri_p.clone());
				match mult {
					0 => {}
					1 => rb = rb.header(HOST, hval.clone()),
					_ => rb = rb.header(HOST, hval.clone()).header(HOST, HeaderValue::from_static("example.com")),
				}
				let req: HttpRequest<Empty<Bytes>> = rb.body(Empty::new()).unwrap();
				let calls = Arc::new(AtomicUsize::new(0));
				let c2 = calls.clone();
				let probe = tower::service_fn(move |_r: HttpRequest<Empty<Bytes>>| {
					c2.fetch_add(1, Ordering::SeqCst);
					async move { Ok::<_, std::convert::Infallible>(HttpResponse::new(HttpBody::from("probe"))) }
				});
				let mut svc = layer.layer(probe);
				let res = svc.call(req).now_or_never();
				let Some(Ok(resp)) = res else {
					rep.violation("layer:not-ready-or-error", &format!("list {:?} header {:?}: layer future did not complete with a response", lists[li], String::from_utf8_lossy(hv)), json!({"list": lists[li]}));
					continue;
				};
				let status = resp.status().as_u16();
				let called = calls.load(Ordering::SeqCst);
				let (class, case) = judge_request(rep, "", &lists[li], entries, hv, mult, uk, &uri, &uri_p, status, called);
				local.case_unique(&format!("{class}:{status}"));
				if i % 20011 == 3 && mult == 1 && uk == UriKind::Origin {
					rep.sample(case);
				}
			}
		}
	});

	// ---- allow-list entries given as SocketAddr values (another constructor path than strings)
	{
		use std::net::SocketAddr;
		let addrs: Vec<SocketAddr> = ["127.0.0.1:9944", "[::1]:9944", "[2001:db8::1]:9944", "[::1]:80", "0.0.0.0:80"].iter().map(|a| a.parse().unwrap()).collect();
		let hosts = ["127.0.0.1:9944", "[::1]:9944", "[2001:db8::1]:9944", "[::1]:80", "[::1]", "0.0.0.0:80", "0.0.0.0", "evil.com:9944", "evil.com", "example.com:80", "::1", "localhost:9944", "1:9944", "[::2]:9944"];
		let mut local = crate::report::Local::default();
		for n in 1..=2usize {
			for i in 0..addrs.len() {
				for j in 0..addrs.len() {
					if n == 1 && j != 0 {
						continue;
					}
					let list: Vec<SocketAddr> = if n == 1 { vec![addrs[i]] } else { vec![addrs[i], addrs[j]] };
					let Ok(layer) = HostFilterLayer::new(list.iter().copied()) else {
						rep.violation("sockaddr-entry-rejected", &format!("HostFilterLayer::new({list:?}) failed"), json!({"list": format!("{list:?}")}));
						continue;
					};
					let entries: Vec<Option<RAuth>> = list.iter().map(|a| ref_parse(&a.to_string())).collect();
					for h in hosts {
						let calls = Arc::new(AtomicUsize::new(0));
						let c2 = calls.clone();
						let probe = tower::service_fn(move |_r: HttpRequest<Empty<Bytes>>| {
							c2.fetch_add(1, Ordering::SeqCst);
							async move { Ok::<_, std::convert::Infallible>(HttpResponse::new(HttpBody::from("probe"))) }
						});
						let req: HttpRequest<Empty<Bytes>> = http::Request::builder().method("POST").uri("/").header(HOST, h).body(Empty::new()).unwrap();
						let mut svc = layer.layer(probe);
						let Some(Ok(resp)) = svc.call(req).now_or_never() else { continue };
						let admitted = calls.load(Ordering::SeqCst) == 1;
						let hdr = ref_parse(h);
						let matched = hdr.as_ref().map_or(false, |a| entries.iter().flatten().any(|e| entry_matches(e, a)));
						let case = json!({"engine":"ENUM","part":"socket-addr-entries","allow_list": format!("{list:?}"), "host_header": h, "status": resp.status().as_u16(), "admitted": admitted});
						if admitted && !matched {
							rep.violation("sockaddr:admitted-without-match", &format!("allow-list {list:?} (socket addresses): Host {h:?} reached the inner service although no entry matches"), case.clone());
						}
						if !admitted && matched && n == 1 {
							rep.violation("sockaddr:matching-authority-rejected", &format!("allow-list {list:?} (socket addresses): Host {h:?} matches the only entry but got {}", resp.status().as_u16()), case.clone());
						}
						local.case_unique(if admitted { "sockaddr:admitted" } else { "sockaddr:rejected" });
					}
				}
			}
		}
		rep.merge(local);
	}

	// ---- SRV-TCP leg: the layer in its deployed position (HTTP middleware of a real `Server`), requests written as raw
	//      HTTP/1.1 over loopback so that hyper supplies the Host header and the request-target. Single-entry lists ×
	//      scheme-less Host values × request-target forms; the RPC call in the body tells whether the service was reached.
	{
		let singles: Vec<usize> = (0..lists.len()).filter(|li| lists[*li].len() <= 1 && built[*li].is_some()).collect();
		let hdrs: Vec<&Vec<u8>> = headers.iter().filter(|h| !h.windows(3).any(|w| w == b"://") && !h.iter().any(|b| *b == b'\r' || *b == b'\n' || *b == 0)).collect();
		let uris: Vec<UriKind> = if rep.tier.thorough() { URIS.to_vec() } else { vec![UriKind::Origin, UriKind::AbsOther] };
		rep.extra("tcp_leg_requests", json!(singles.len() * hdrs.len() * uris.len()));
		const BODY: &str = r#"{"jsonrpc":"2.0","id":1,"method":"add","params":[1,2]}"#;
		par_for(rep, singles.len() * uris.len(), 1, crate::srv::rt, |w, rt, local| {
			use tokio::io::AsyncWriteExt;
			let li = singles[w / uris.len()];
			let uk = uris[w % uris.len()];
			let Some((_, entries)) = &built[li] else { return };
			let log: crate::srv::InvLog = Default::default();
			let _e = rt.enter();
			let listener = std::net::TcpListener::bind("127.0.0.1:0").expect("bind loopback");
			listener.set_nonblocking(true).unwrap();
			let addr = listener.local_addr().unwrap();
			let layer = HostFilterLayer::new(lists[li].iter().copied()).expect("accepted before");
			let server = jsonrpsee_server::Server::builder().set_http_middleware(tower::ServiceBuilder::new().layer(layer)).build_from_tcp(listener).expect("server");
			let handle = server.start(crate::srv::std_module(log.clone()));
			let mut conn: Option<tokio::net::TcpStream> = None;
			for hv in &hdrs {
				let hstr = std::str::from_utf8(hv).ok();
				let uri = match uk {
					UriKind::Origin => "/".to_string(),
					UriKind::AbsSame => match hstr.and_then(ref_parse) {
						Some(a) if a.plain && !a.host.is_empty() => {
							let p = match a.port {
								RPort::Default => "".to_string(),
								RPort::Any => continue,
								RPort::Fixed(n) => format!(":{n}"),
							};
							format!("http://{}{}/", a.host, p)
						}
						_ => continue,
					},
					UriKind::AbsOther => "http://example.com:8080/rpc".to_string(),
					UriKind::AbsDefaultPort => "https://example.com:443/".to_string(),
				};
				let Ok(uri_p) = uri.parse::<http::Uri>() else { continue };
				let mut req: Vec<u8> = format!("POST {uri} HTTP/1.1\r\nhost: ").into_bytes();
				req.extend_from_slice(hv);
				req.extend_from_slice(format!("\r\ncontent-type: application/json\r\ncontent-length: {}\r\n\r\n{BODY}", BODY.len()).as_bytes());
				log.lock().unwrap().clear();
				// keep-alive connection, re-opened whenever the server closed it (hyper does after a 400 of its own)
				let mut resp = None;
				for _attempt in 0..3 {
					if conn.is_none() {
						conn = rt.block_on(tokio::net::TcpStream::connect(addr)).ok();
					}
					let Some(io) = conn.as_mut() else { continue };
					let r = rt.block_on(async {
						io.write_all(&req).await.ok()?;
						super::c01::read_response(io).await
					});
					match r {
						Some(x) => {
							resp = Some(x);
							break;
						}
						None => conn = None,
					}
				}
				let Some((status, _body)) = resp else {
					rep.machinery_error(format!("SRV-TCP leg: no response for Host {:?}", String::from_utf8_lossy(hv)));
					continue;
				};
				if status == 400 || status == 403 {
					// a refusal may close the connection; start the next request on a fresh one
					conn = None;
				}
				let called = log.lock().unwrap().len();
				// what the server sees: optional whitespace around the value is not part of it (RFC 9110 §5.5)
				let seen: Vec<u8> = {
					let t = String::from_utf8_lossy(hv).trim_matches([' ', '\t']).to_string();
					if std::str::from_utf8(hv).is_ok() { t.into_bytes() } else { hv.to_vec() }
				};
				let (class, _case) = judge_request(rep, "tcp:", &lists[li], entries, &seen, 1, uk, &uri, &uri_p, status, called);
				local.case_unique(&format!("tcp:{class}:{status}"));
			}
			let _ = handle.stop();
			let _ = rt.block_on(async { tokio::time::timeout(std::time::Duration::from_secs(10), handle.stopped()).await });
		});

		// ---- the same deployment spoken to over HTTP/2 (prior knowledge): the authority travels as `:authority`
		//      (it becomes the request URI's authority on the server), a Host header is optional and may disagree
		let h2_modes: [&str; 3] = ["authority-only", "authority+same-host", "other-authority+host"];
		rep.extra("h2_leg_requests", json!(singles.len() * hdrs.len() * h2_modes.len()));
		par_for(rep, singles.len(), 1, crate::srv::rt, |w, rt, local| {
			let li = singles[w];
			let Some((_, entries)) = &built[li] else { return };
			let log: crate::srv::InvLog = Default::default();
			let _e = rt.enter();
			let listener = std::net::TcpListener::bind("127.0.0.1:0").expect("bind loopback");
			listener.set_nonblocking(true).unwrap();
			let addr = listener.local_addr().unwrap();
			let layer = HostFilterLayer::new(lists[li].iter().copied()).expect("accepted before");
			let server = jsonrpsee_server::Server::builder().set_http_middleware(tower::ServiceBuilder::new().layer(layer)).build_from_tcp(listener).expect("server");
			let handle = server.start(crate::srv::std_module(log.clone()));
			let mut conn: Option<crate::srv::H2Conn> = None;
			for hv in &hdrs {
				let Ok(hstr) = std::str::from_utf8(hv) else { continue };
				// only values that are an authority for the `http` crate can be put into `:authority`
				let Ok(own) = format!("http://{hstr}/").parse::<http::Uri>() else { continue };
				if own.authority().map(|a| a.as_str()) != Some(hstr) {
					continue;
				}
				for mode in h2_modes {
					let (uri, host, mult, uk) = match mode {
						"authority-only" => (format!("http://{hstr}/"), None, 0usize, UriKind::AbsSame),
						"authority+same-host" => (format!("http://{hstr}/"), Some(hstr), 1, UriKind::AbsSame),
						_ => ("http://example.com:8080/rpc".to_string(), Some(hstr), 1, UriKind::AbsOther),
					};
					let Ok(uri_p) = uri.parse::<http::Uri>() else { continue };
					log.lock().unwrap().clear();
					let mut resp = None;
					for _attempt in 0..3 {
						if conn.is_none() {
							conn = rt.block_on(crate::srv::h2_connect(addr)).ok();
						}
						let Some(c) = conn.as_mut() else { continue };
						let mut b = http::Request::builder().method("POST").uri(uri.as_str()).header("content-type", "application/json");
						if let Some(h) = host {
							b = b.header("host", h);
						}
						let Ok(req) = b.body(crate::srv::FramesBody::single(BODY)) else { break };
						match rt.block_on(async { tokio::time::timeout(std::time::Duration::from_secs(10), c.request(req)).await }) {
							Ok(Ok(o)) => {
								resp = Some(o.status);
								break;
							}
							_ => conn = None,
						}
					}
					let Some(status) = resp else {
						rep.machinery_error(format!("SRV-TCP HTTP/2 leg: no response for authority {hstr:?} ({mode})"));
						continue;
					};
					let called = log.lock().unwrap().len();
					let (class, case) = judge_request(rep, "h2:", &lists[li], entries, if mult == 0 { b"" } else { hv.as_slice() }, mult, uk, &uri, &uri_p, status, called);
					// completeness over HTTP/2: the only entry matches the (single, plain) authority of the request
					if mode != "other-authority+host" && lists[li].len() == 1 && called == 0 {
						if let Some(a) = ref_parse(hstr) {
							if a.plain && !a.userinfo && a.port != RPort::Any && entries.iter().flatten().any(|e| entry_matches(e, &a)) {
								rep.violation("h2:matching-authority-rejected", &format!("allow-list {:?}: HTTP/2 request with :authority {hstr:?} ({mode}) matches the only entry but got {status}", lists[li]), case.clone());
							}
						}
					}
					local.case_unique(&format!("h2:{mode}:{class}:{status}"));
				}
			}
			drop(conn);
			let _ = handle.stop();
			let _ = rt.block_on(async { tokio::time::timeout(std::time::Duration::from_secs(10), handle.stopped()).await });
		});
	}
}
