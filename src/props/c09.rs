//! C09 — on connection failure everything pending fails promptly with the cause (SCHED with fault enumeration + ENUM).

use crate::clim::{self, AnswerKind, CliScenarioCfg, CliState, EnvEvent, FeOp, OpStatus};
use crate::report::Reporter;
use crate::sched::{self, Scenario, Status, Verdict};
use jsonrpsee_core::client::IdKind;
use serde_json::{Value, json};
use std::time::Duration;

#[derive(Clone, Debug, PartialEq)]
pub enum Fault {
	/// the n-th transport send fails
	Send(usize),
	/// receiver error once `after` messages are on the wire
	Recv(usize),
	/// peer closes (receiver reports the close as an error, as the WebSocket transport does)
	PeerClose(usize),
	/// a message that is not JSON-RPC
	Garbage(usize, &'static str),
	/// pings are enabled and writing a ping fails (first tick: at start-up)
	Ping,
	/// the n-th send fails and, the send half being broken, the transport's `close()` fails as well; the cause of the
	/// disconnect is still the send error
	SendAndClose(usize),
}

impl Fault {
	fn name(&self) -> String {
		match self {
			Fault::Send(n) => format!("send-error@{n}"),
			Fault::Recv(n) => format!("recv-error@{n}"),
			Fault::PeerClose(n) => format!("peer-close@{n}"),
			Fault::Garbage(n, t) => format!("bad-message@{n}:{t}"),
			Fault::Ping => "ping-error".to_string(),
			Fault::SendAndClose(n) => format!("send-error@{n}+close-error"),
		}
	}
	fn kind(&self) -> &'static str {
		match self {
			Fault::Send(_) => "send-error",
			Fault::Recv(_) => "recv-error",
			Fault::PeerClose(_) => "peer-close",
			Fault::Garbage(..) => "bad-message",
			Fault::Ping => "ping-error",
			Fault::SendAndClose(_) => "send+close-error",
		}
	}
	/// text that the disconnect cause must display
	fn cause_marker(&self) -> Vec<&'static str> {
		match self {
			Fault::Send(_) | Fault::SendAndClose(_) => vec!["injected-send-fault"],
			Fault::Recv(_) => vec!["injected-recv-fault"],
			Fault::PeerClose(_) => vec!["connection closed by peer"],
			Fault::Ping => vec!["injected-ping-fault"],
			Fault::Garbage(_, t) => match *t {
				"not json" => vec!["Unparseable message"],
				"{}" => vec!["Unparseable message"],
				"[]" => vec!["Empty batch"],
				_ => vec!["is not a pending call", "is invalid", "Unparseable message", "not a pending"],
			},
		}
	}
}

pub struct FaultScenario {
	pub id_kind: IdKind,
	pub ops: Vec<FeOp>,
	/// wire messages (by index) that are answered normally
	pub answered: Vec<usize>,
	pub fault: Fault,
	pub lib_points: bool,
	pub tx_points: bool,
	pub all_points: bool,
	/// loop points of the client tasks and the transport points park only once per execution
	pub hold_once: bool,
}

impl FaultScenario {
	fn cfg(&self) -> CliScenarioCfg {
		let mut env: Vec<EnvEvent> = self.answered.iter().map(|m| EnvEvent::Answer { msg: *m, kind: AnswerKind::Ok }).collect();
		let mut fail_send_at = None;
		match &self.fault {
			Fault::Send(n) | Fault::SendAndClose(n) => fail_send_at = Some(*n),
			Fault::Recv(a) => env.push(EnvEvent::RecvError { after: *a, what: "injected-recv-fault".into() }),
			Fault::PeerClose(a) => env.push(EnvEvent::RecvError { after: *a, what: "connection closed by peer".into() }),
			Fault::Garbage(a, t) => env.push(EnvEvent::Raw { after: *a, text: t.to_string() }),
			Fault::Ping => {}
		}
		let late_after = env.len();
		let ping = self.fault == Fault::Ping;
		CliScenarioCfg { request_timeout_ms: None, frame_ws: "", fail_close: matches!(self.fault, Fault::SendAndClose(_)), ws_builder: None, rx_split: false, ping_ms: None, send_ping_ms: if ping { Some(5) } else { None }, fail_ping: ping, warmup: 0, id_kind: self.id_kind, ops: self.ops.clone(), env, fail_send_at, tx_points: self.tx_points, buffer_cap: 4, late_after }
	}
}

fn mask_lib(l: &str) -> bool {
	// the shutdown race: front-end channel closed / transport closed / cause recorded
	!l.starts_with("server:") && l != "client:send_task:before_handle" && l != "client:read_task:before_followup"
}
fn mask_all_client(l: &str) -> bool {
	!l.starts_with("server:")
}
fn mask_nolib(l: &str) -> bool {
	!l.starts_with("server:") && !l.starts_with("client:")
}

impl Scenario for FaultScenario {
	type State = CliState;
	fn name(&self) -> String {
		format!("cli_mem/fault:{:?}:{:?}:answered{:?}:{}:{}", self.ops, self.id_kind, self.answered, self.fault.name(), if self.all_points { "allpoints" } else if self.lib_points { "libpoints" } else { "nolib" }) + if self.hold_once { ":hold-once" } else { "" }
	}
	fn config(&self) -> Value {
		json!({"id_kind": format!("{:?}", self.id_kind), "ops": format!("{:?}", self.ops), "answered": self.answered, "fault": self.fault.name(), "lib_points": self.lib_points, "tx_points": self.tx_points})
	}
	fn mask(&self) -> fn(&str) -> bool {
		if self.all_points { mask_all_client } else if self.lib_points { mask_lib } else { mask_nolib }
	}
	fn once_labels(&self) -> &'static [&'static str] {
		if self.hold_once { &["client:send_task:before_handle", "client:read_task:before_followup", "tx:send", "tx:send:returning"] } else { &[] }
	}
	fn setup(&self) -> CliState {
		clim::setup(&self.cfg())
	}
	fn judge(&self, st: CliState, _trace: &[String], panics: &[String], status: Status) -> Verdict {
		let mut v = Vec::new();
		let l = st.log.lock().unwrap();
		let fk = self.fault.kind();
		if status != Status::Quiescent {
			v.push((format!("machinery:{status:?}"), format!("execution ended with {status:?}")));
		}
		for p in panics {
			v.push((format!("panic:{fk}"), format!("a task panicked: {p}")));
		}
		// did the fault actually happen in this execution? (a send fault on the n-th send needs n+1 sends)
		let fault_happened = match &self.fault {
			Fault::Ping => _trace.iter().any(|l| l == "tx:ping:FAULT"),
			Fault::Send(n) | Fault::SendAndClose(n) => *st.shared.send_calls.lock().unwrap() > *n,
			_ => l.deliveries.iter().any(|(k, _, _)| *k == self.answered.len()),
		};
		let markers = self.fault.cause_marker();
		let mut outcome = Vec::new();
		for (i, s) in l.status.iter().enumerate() {
			let opk = match &self.ops[i] {
				FeOp::Batch(_) => "batch".to_string(),
				o => format!("{o:?}").to_lowercase(),
			};
			match s {
				OpStatus::NotStarted => outcome.push("not-started".to_string()),
				OpStatus::Pending => {
					outcome.push("PENDING".into());
					if fault_happened {
						v.push((format!("stall:{opk}:{fk}"), format!("op #{i} ({:?}) is still pending at quiescence after the {fk} fault", self.ops[i])));
					}
				}
				OpStatus::Ok(r) => {
					outcome.push(format!("ok:{r}"));
					// a subscription that was accepted must have ended after the fault
					if matches!(self.ops[i], FeOp::Subscribe | FeOp::RegisterNotif) && fault_happened && !l.sub_ended[i] {
						v.push((format!("subscription-not-ended:{fk}"), format!("subscription stream of op #{i} did not end after the fault")));
					}
				}
				OpStatus::Err(e) => {
					outcome.push(format!("err:{}", e.split("::").next().unwrap_or("").chars().take(60).collect::<String>()));
					if e.contains("Error reason could not be found") {
						v.push((format!("cause-unknown:{opk}:{fk}"), format!("op #{i} ({:?}) failed with the placeholder error: {e}", self.ops[i])));
					} else if !e.contains("RestartNeeded") {
						v.push((format!("wrong-error-kind:{opk}:{fk}"), format!("op #{i} ({:?}) failed with {e}, expected RestartNeeded(cause)", self.ops[i])));
					} else if !markers.iter().any(|m| e.contains(m)) {
						v.push((format!("wrong-cause:{opk}:{fk}"), format!("op #{i} ({:?}) failed with {e}, which does not carry the injected cause {markers:?}", self.ops[i])));
					}
				}
			}
		}
		if fault_happened {
			if st.client.is_connected() {
				v.push((format!("still-connected:{fk}"), "is_connected() is true at quiescence after the fault".into()));
			}
			match &l.on_disconnect {
				None => v.push((format!("on_disconnect-pending:{fk}"), "on_disconnect() has not resolved at quiescence after the fault".into())),
				Some(e) => {
					if e.contains("Error reason could not be found") {
						v.push((format!("cause-unknown:on_disconnect:{fk}"), format!("on_disconnect() resolved with the placeholder: {e}")));
					} else if !markers.iter().any(|m| e.contains(m)) {
						v.push((format!("wrong-cause:on_disconnect:{fk}"), format!("on_disconnect() = {e}, expected cause {markers:?}")));
					}
				}
			}
		}
		// a client that knows its connection has failed stops writing to it: with no scheduling points inside the library
		// the failure is processed as soon as it is delivered, so at most the frame being written and one more go out
		if !self.lib_points && !self.all_points && self.ops.iter().any(|o| matches!(o, FeOp::NotifBurst(_))) {
			if let Some(at) = _trace.iter().position(|l| l.contains(":deliver:ERROR:")) {
				let later = _trace[at..].iter().filter(|l| l.starts_with("tx:send#") && !l.ends_with("FAULT")).count();
				if later > 2 {
					v.push((format!("keeps-writing-after-failure:{fk}"), format!("{later} frames were written to the transport after the {fk} fault had been delivered to the client (the queue held more requests)")));
				}
				outcome.push(format!("frames-after-failure={}", later.min(3)));
			}
		}
		outcome.push(format!("fault={fault_happened}"));
		outcome.push(format!("disc={}", l.on_disconnect.as_deref().map(|s| s.chars().take(50).collect::<String>()).unwrap_or_default()));
		Verdict { violations: v, outcome: outcome.join("|") }
	}
}

fn scenarios(thorough: bool) -> Vec<FaultScenario> {
	let mut out = Vec::new();
	let mut histories: Vec<Vec<FeOp>> = vec![
		vec![FeOp::Call],
		vec![FeOp::Call, FeOp::LateCall],
		vec![FeOp::Call, FeOp::Call],
		vec![FeOp::Call, FeOp::Call, FeOp::LateCall],
		vec![FeOp::Batch(2), FeOp::LateCall],
		vec![FeOp::Subscribe, FeOp::LateCall],
		vec![FeOp::Subscribe, FeOp::Call],
		vec![FeOp::Call, FeOp::Notif, FeOp::LateCall],
		vec![FeOp::Call, FeOp::Batch(2), FeOp::Subscribe],
		vec![FeOp::LateCall],
		vec![FeOp::SubscribeDrop, FeOp::Call],
		vec![FeOp::SubscribeDrop, FeOp::LateCall],
		// subscribe_to_method is a front-end request like the others: queued behind a call whose send fails, or made late
		vec![FeOp::Call, FeOp::RegisterNotif],
		vec![FeOp::RegisterNotif, FeOp::LateCall],
	];
	if thorough {
		histories.extend([
			vec![FeOp::Call, FeOp::Call, FeOp::Call, FeOp::LateCall],
			vec![FeOp::Subscribe, FeOp::Subscribe, FeOp::LateCall],
			vec![FeOp::Batch(2), FeOp::Batch(3), FeOp::Call],
			vec![FeOp::Call, FeOp::Subscribe, FeOp::Notif, FeOp::LateCall],
			vec![FeOp::Notif, FeOp::Notif, FeOp::LateCall],
		]);
	}
	for ops in histories {
		let sends = ops.iter().filter(|o| **o != FeOp::LateCall && **o != FeOp::RegisterNotif).count() + ops.iter().filter(|o| **o == FeOp::SubscribeDrop).count();
		let mut faults = Vec::new();
		for n in 0..=sends {
			faults.push(Fault::Send(n));
			if n <= 1 {
				faults.push(Fault::SendAndClose(n));
			}
			faults.push(Fault::Recv(n));
			faults.push(Fault::PeerClose(n));
		}
		faults.push(Fault::Garbage(sends, "not json"));
		faults.push(Fault::Garbage(sends, r#"{"jsonrpc":"2.0","id":99,"result":1}"#));
		faults.push(Fault::Garbage(sends, "[]"));
		faults.push(Fault::Garbage(sends, r#"[{"jsonrpc":"2.0","id":"x","result":1}]"#));
		faults.push(Fault::Garbage(sends, "{}"));
		if thorough {
			faults.push(Fault::Garbage(0, "not json"));
			faults.push(Fault::Garbage(1, r#"{"jsonrpc":"2.0","id":99,"result":1}"#));
		}
		for f in faults {
			// answer none / the first / (thorough) every request normally before or around the fault
			let mut answered_sets: Vec<Vec<usize>> = vec![vec![]];
			if ops[0] == FeOp::SubscribeDrop {
				// the subscribe call is acknowledged, so that dropping the stream produces an unsubscribe request
				answered_sets = vec![vec![0]];
			} else if sends >= 1 {
				answered_sets.push(vec![0]);
			}
			if thorough && sends >= 2 {
				answered_sets.push((0..sends).collect());
			}
			for ans in answered_sets {
				for id_kind in [IdKind::Number, IdKind::String] {
					out.push(FaultScenario { id_kind, ops: ops.clone(), answered: ans.clone(), fault: f.clone(), lib_points: true, tx_points: true, all_points: thorough, hold_once: false });
				}
			}
		}
	}
	// a failing ping (pings enabled, first tick at start-up)
	for ops in [vec![FeOp::Call], vec![FeOp::Call, FeOp::LateCall], vec![FeOp::Subscribe, FeOp::Batch(2)]] {
		for id_kind in [IdKind::Number, IdKind::String] {
			out.push(FaultScenario { id_kind, ops: ops.clone(), answered: vec![], fault: Fault::Ping, lib_points: true, tx_points: true, all_points: thorough, hold_once: false });
		}
	}
	// a queue full of requests when the receive side fails: the send task must stop, not drain the queue
	for f in [Fault::Recv(1), Fault::PeerClose(1), Fault::Garbage(1, "not json")] {
		out.push(FaultScenario { id_kind: IdKind::Number, ops: vec![FeOp::Call, FeOp::NotifBurst(8)], answered: vec![], fault: f, lib_points: false, tx_points: true, all_points: false, hold_once: false });
	}
	// the same tasks held back once and then running back to back (once-only points), a few histories × faults
	for ops in [vec![FeOp::Call, FeOp::Call], vec![FeOp::Call, FeOp::Subscribe], vec![FeOp::Call, FeOp::Batch(2), FeOp::LateCall]] {
		for f in [Fault::Send(0), Fault::Send(1), Fault::SendAndClose(1), Fault::Recv(1), Fault::PeerClose(2), Fault::Garbage(2, "not json")] {
			for ans in [vec![], vec![0usize]] {
				out.push(FaultScenario { id_kind: IdKind::Number, ops: ops.clone(), answered: ans, fault: f.clone(), lib_points: true, tx_points: true, all_points: true, hold_once: true });
			}
		}
	}
	out
}

/// ENUM leg: hostile / extreme messages from the server; after each the client is healthy or cleanly disconnected.
fn hostile_messages() -> Vec<String> {
	let ids = ["0", "1", "9223372036854775808", "18446744073709551614", "18446744073709551615", "18446744073709551616", "-1", "\"x\"", "null", "1.5", "\"18446744073709551615\""];
	let mut v = Vec::new();
	for id in ids {
		v.push(format!(r#"{{"jsonrpc":"2.0","id":{id},"result":1}}"#));
		v.push(format!(r#"{{"jsonrpc":"2.0","id":{id},"error":{{"code":1,"message":"m"}}}}"#));
		v.push(format!(r#"[{{"jsonrpc":"2.0","id":{id},"result":1}}]"#));
		v.push(format!(r#"[{{"jsonrpc":"2.0","id":{id},"result":1}},{{"jsonrpc":"2.0","id":0,"result":2}}]"#));
		v.push(format!(r#"[{{"jsonrpc":"2.0","id":0,"result":1}},{{"jsonrpc":"2.0","id":{id},"result":2}}]"#));
		v.push(format!(r#"{{"jsonrpc":"2.0","method":"n","params":{{"subscription":{id},"result":1}}}}"#));
		v.push(format!(r#"{{"jsonrpc":"2.0","method":"n","params":{{"subscription":{id},"error":"e"}}}}"#));
	}
	for t in ["", " ", "null", "1", "\"s\"", "[", "{", "[]", "{}", "[[]]", "[1]", "[null]", "[{}]", "{\"jsonrpc\":\"2.0\"}", "{\"id\":0}", "{\"jsonrpc\":\"2.0\",\"method\":1}",
		"{\"jsonrpc\":\"2.0\",\"method\":\"n\"}", "{\"jsonrpc\":\"2.0\",\"method\":\"n\",\"params\":null}", "{\"jsonrpc\":\"1.0\",\"id\":0,\"result\":1}", "{\"id\":0,\"result\":1,\"error\":{\"code\":1,\"message\":\"m\"}}",
		"\u{feff}{}", "{\"jsonrpc\":\"2.0\",\"id\":0,\"result\":1}x"] {
		v.push(t.to_string());
	}
	// huge array, deep nesting
	let mut big = String::from("[");
	for i in 0..10_000 {
		if i > 0 {
			big.push(',');
		}
		big.push_str(&format!(r#"{{"jsonrpc":"2.0","id":{i},"result":0}}"#));
	}
	big.push(']');
	v.push(big);
	v.push(format!(r#"{{"jsonrpc":"2.0","id":0,"result":{}{}}}"#, "[".repeat(200), "]".repeat(200)));
	v.push(format!("{}{}", "[".repeat(200), "]".repeat(200)));
	// long messages full of multi-byte characters: valid JSON that is not JSON-RPC, not JSON at all, and a response with a
	// huge error message; four ASCII prefixes × three character widths put a character boundary at every residue, so a
	// byte-indexed cut anywhere below ~5 kB lands inside a character for some member of the family
	for (ch, n) in [("é", 3000usize), ("€", 2000), ("\u{1F600}", 1500)] {
		for pre in 0..4usize {
			let body = format!("{}{}", "a".repeat(pre), ch.repeat(n));
			v.push(format!(r#"{{"x":"{body}"}}"#));
			v.push(format!("{body} not json"));
			v.push(format!(r#"{{"jsonrpc":"2.0","id":77,"error":{{"code":1,"message":"{body}"}}}}"#));
			v.push(format!(r#"{{"jsonrpc":"2.0","method":"{body}","params":[1]}}"#));
		}
	}
	// nothing but whitespace / nothing at all
	for t in ["\n", "\r\n", "\t \n", "\u{a0}", "\u{feff}"] {
		v.push(t.to_string());
	}
	v
}

struct HostileScenario {
	text: String,
	pending: Vec<FeOp>,
}

impl Scenario for HostileScenario {
	type State = CliState;
	fn name(&self) -> String {
		format!("cli_mem/hostile:{:?}:{}", self.pending, self.text.chars().take(60).collect::<String>())
	}
	fn config(&self) -> Value {
		json!({"pending": format!("{:?}", self.pending), "message": self.text.chars().take(200).collect::<String>()})
	}
	fn mask(&self) -> fn(&str) -> bool {
		mask_nolib
	}
	fn setup(&self) -> CliState {
		let mut ops = self.pending.clone();
		ops.push(FeOp::LateCall);
		let sends = self.pending.len();
		let env = vec![EnvEvent::Raw { after: sends, text: self.text.clone() }, EnvEvent::Answer { msg: sends, kind: AnswerKind::Ok }];
		clim::setup(&CliScenarioCfg { request_timeout_ms: None, frame_ws: "", fail_close: false, ws_builder: None, rx_split: false, ping_ms: None, send_ping_ms: None, fail_ping: false, warmup: 0, id_kind: IdKind::Number, ops, env, fail_send_at: None, tx_points: false, buffer_cap: 4, late_after: 1 })
	}
	fn judge(&self, st: CliState, _trace: &[String], panics: &[String], status: Status) -> Verdict {
		let mut v = Vec::new();
		let l = st.log.lock().unwrap();
		let shape = shape_of(&self.text);
		if status != Status::Quiescent {
			v.push((format!("machinery:{status:?}"), format!("{status:?}")));
		}
		for p in panics {
			v.push((format!("panic:hostile:{shape}"), format!("a client task panicked on server message {:?}: {p}", self.text.chars().take(120).collect::<String>())));
		}
		let connected = st.client.is_connected();
		let late = l.status.last().unwrap();
		let mut outcome = format!("connected={connected}");
		if connected {
			// healthy: the later call (sentinel) must be answered with its own answer
			let k = self.pending.len();
			match late {
				OpStatus::Ok(r) if *r == format!("\"r{k}\"") => outcome.push_str("|late=ok"),
				OpStatus::Ok(r) => {
					// the hostile message itself may legitimately have answered the sentinel's id only if it carried that id before the sentinel was sent: impossible (sent after)
					outcome.push_str("|late=other");
					v.push((format!("hostile:wrong-answer:{shape}"), format!("after server message {:?} a later call returned {r}, expected its own answer", self.text.chars().take(120).collect::<String>())));
				}
				other => {
					outcome.push_str("|late=stuck");
					if panics.is_empty() {
						v.push((format!("hostile:stall:{shape}"), format!("client reports connected after {:?} but a later call ended as {other:?}", self.text.chars().take(120).collect::<String>())));
					}
				}
			}
		} else {
			// cleanly disconnected: everything failed with a cause, nothing pending
			for (i, s) in l.status.iter().enumerate() {
				match s {
					OpStatus::Pending => v.push((format!("hostile:stall-after-disconnect:{shape}"), format!("op #{i} still pending after the client abandoned the connection"))),
					OpStatus::Err(e) if e.contains("Error reason could not be found") => v.push((format!("hostile:cause-unknown:{shape}"), format!("op #{i}: {e}"))),
					_ => {}
				}
			}
			if l.on_disconnect.is_none() {
				v.push((format!("hostile:on_disconnect-pending:{shape}"), "on_disconnect() did not resolve".into()));
			}
			outcome.push_str("|disconnected");
		}
		Verdict { violations: v, outcome }
	}
}

fn shape_of(t: &str) -> String {
	let first = t.trim_start().chars().next();
	let kind = match first {
		Some('[') => "array",
		Some('{') => "object",
		_ => "other",
	};
	let big = if t.contains("18446744073709551615") { ":id-u64-max" } else if t.len() > 5000 { ":huge" } else { "" };
	format!("{kind}{big}")
}

pub fn check(rep: &Reporter) {
	let thorough = rep.tier.thorough();
	rep.set_rule(
		"SCHED: client histories (1–3 front-end operations out of call / batch / subscribe / subscribe-then-drop / subscribe_to_method / notification / late call) × one transport fault of each kind {n-th send fails, receive error after k messages, peer close, non-JSON message, response with unknown id, (thorough) empty array, array with non-numeric id, empty object} injected at every step, explored over all release orders of {front-end callers, tx.send, tx.close, message deliveries, the client's send task / read task / shutdown watcher (cfg points)} up to the stated deviation bound; plus ENUM: ~150 hostile server messages (ids at u64 boundaries, 10⁴-element array, nesting depth 200, token soup, whitespace-only frames, 2–6 kB messages of 2-, 3- and 4-byte characters at every alignment) each with 0 and 1 pending call, followed by a sentinel call. States = decision-tree nodes, transitions = point releases; every execution is an implementation execution.",
	);
	rep.assume("request_timeout is 1 h and time is virtual, so 'prompt' = before quiescence; the harness transport reports peer close as a receive error like the WebSocket transport does");
	request_timeout_leg(rep);
	let bound = if thorough { 3 } else { 2 };
	let scen = scenarios(thorough);
	let t0 = std::time::Instant::now();
	let budget = Duration::from_secs(if thorough { 1200 } else { 40 });
	let mut reduced = 0u64;
	for s in &scen {
		// whole tree when it is small, else all schedules with at most `bound` deviations; once the tier's time budget
		// is used up the remaining scenarios are still explored, but with the quick tier's caps
		let over = t0.elapsed() > budget;
		if over {
			reduced += 1;
		}
		let (cap, b, tc) = if thorough && !over { (60_000, bound, 20) } else { (3_000, 2, 5) };
		sched::explore_auto(s, rep, cap, b, if thorough { 10 } else { 50 }, Duration::from_secs(tc));
	}
	rep.extra("scenarios_explored_with_reduced_caps_after_time_budget", json!(reduced));
	// hostile messages
	for text in hostile_messages() {
		for pending in [vec![], vec![FeOp::Call]] {
			let s = HostileScenario { text: text.clone(), pending };
			sched::explore_auto(&s, rep, 2000, 1, 0, Duration::from_secs(5));
		}
	}
	rep.extra("deviation_bound", json!(bound));

}

/// One real-time leg: an unanswered call, batch and subscribe fail with RequestTimeout (no scheduler involved). It runs
/// before the explorations: the client's timer is `futures_timer`'s, whose single helper thread is busy for a while
/// after millions of short-lived clients (DESIGN §8, memory), and a 50 ms timer may then fire seconds late.
fn request_timeout_leg(rep: &Reporter) {
		use jsonrpsee_core::client::{ClientT, SubscriptionClientT};
		let rt = tokio::runtime::Builder::new_current_thread().enable_all().build().unwrap();
		let res = rt.block_on(async {
			let shared = std::sync::Arc::new(clim::Shared { rx_split: false, fail_ping: false, fail_close: false,
				sent: Default::default(),
				send_calls: Default::default(),
				fail_send_at: None,
				wire_notify: tokio::sync::Notify::new(),
				rxq: Default::default(),
				rx_notify: tokio::sync::Notify::new(),
				tx_closed: Default::default(),
				tx_points: false,
			});
			let client: jsonrpsee_core::client::async_client::Client = jsonrpsee_core::client::async_client::ClientBuilder::default()
				.request_timeout(Duration::from_millis(50))
				.build_with_tokio(clim::MockTx(shared.clone()), clim::MockRx(shared.clone()));
			let t0 = std::time::Instant::now();
			let a = tokio::time::timeout(Duration::from_secs(30), client.request::<Value, _>("m", jsonrpsee_core::rpc_params![])).await;
			let b = tokio::time::timeout(Duration::from_secs(30), client.subscribe::<Value, _>("sub", jsonrpsee_core::rpc_params![], "unsub")).await;
			let mut bb = jsonrpsee_core::params::BatchRequestBuilder::new();
			bb.insert("m", jsonrpsee_core::rpc_params![]).unwrap();
			let c = tokio::time::timeout(Duration::from_secs(30), client.batch_request::<Value>(bb)).await;
			(format!("{a:?}"), format!("{:?}", b.map(|r| r.map(|_| "subscription"))), format!("{c:?}"), t0.elapsed())
		});
		for (what, r) in [("call", &res.0), ("subscribe", &res.1), ("batch", &res.2)] {
			if !r.contains("RequestTimeout") {
				rep.violation(&format!("request-timeout:{what}"), &format!("an unanswered {what} with request_timeout = 50 ms ended as {r} (waited up to 30 s)"), json!({"engine":"real-time","op": what, "observed": r}));
			}
		}
		rep.add_evals(3, 3, "request-timeout-leg");
		rep.extra("request_timeout_leg", json!({"call": res.0, "subscribe": res.1, "batch": res.2, "elapsed_ms": res.3.as_millis() as u64}));
}

pub fn dyn_scenarios() -> Vec<Box<dyn sched::DynScenario>> {
	let mut v: Vec<Box<dyn sched::DynScenario>> = Vec::new();
	for s in scenarios(true) {
		v.push(Box::new(s));
	}
	for s in scenarios(false) {
		v.push(Box::new(s));
	}
	for text in hostile_messages() {
		for pending in [vec![], vec![FeOp::Call]] {
			v.push(Box::new(HostileScenario { text: text.clone(), pending }));
		}
	}
	v
}
