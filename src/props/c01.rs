//! C01 — every message gets at most one well-formed reply carrying its own id (ENUM; SRV-HTTP + SRV-MEM ws).

use super::srvref::{self, Expect, Transport};
use crate::par::{par_for, seq_count, seq_decode};
use crate::report::{Local, Reporter, hash_of};
use crate::srv;
use jsonrpsee_server::BatchRequestConfig;
use serde_json::json;

const IDS: [Option<&str>; 21] = [
	Some("1"),
	None,
	Some("null"),
	Some("0"),
	Some("\"a\""),
	Some("9007199254740993"),
	Some("18446744073709551615"),
	Some("18446744073709551616"),
	Some("-1"),
	Some("-0"),
	Some("1.0"),
	Some("1e2"),
	Some("\"\""),
	Some("\"1\""),
	Some("\"é\\\"\\\\\""),
	Some("\"\\u0041\""),
	Some("\"xxxxxxxxxxxxxxxxxxxxxxxxxxxxxxxxxxxxxxxxxxxxxxxxxxxxxxxxxxxxxxxxxxxxxxxxxxxxxxxxxxxxxxxxxxxxxxxxxxxxxxxxxxxxxxxxxxxxxxxxxxxxxxxxxxxxxxxxxxxxxxxxxxxxxxxxxxxxxxxxxxxxxxxxxxxxxxxxxxxxxxxxxxxxxxxxxxxxxxxxxxxxxxxxxxxxxxxxxxxxxxxxxxxxxxxxxxxxxxxxxxxxxxxxxxxxxxxxxxxxxxxxxxxxxxxxxxxxxxxxxxxxxxxxxxxxxxx\""),
	Some("true"),
	Some("[1]"),
	Some("{}"),
	Some("2"),
];
const METHODS: [&str; 12] = [
	"\"sync_echo\"",
	"\"async_echo\"",
	"\"blocking_echo\"",
	"\"blocking_panic\"",
	"\"add\"",
	"\"fail\"",
	"\"nope\"",
	"\"\"",
	"\"sync\\u005fecho\"",
	"\"sub\"",
	"\"unsub\"",
	"7",
];
const PARAMS: [Option<&str>; 11] = [
	None,
	Some("[1,2]"),
	Some("null"),
	Some("[]"),
	Some("[\"x\"]"),
	Some("{\"a\":1}"),
	Some("5"),
	Some("\"s\""),
	Some("[[1,[2,[3]]],{\"k\":{\"l\":[]}}]"),
	Some("[1]"),
	Some("[ 18446744073709551615 , 1 ]"),
];
const VERSIONS: [Option<&str>; 6] = [Some("\"2.0\""), Some("\"1.0\""), Some("2.0"), Some("null"), None, Some("\"2\\u002e0\"")];
const EXTRAS: [&str; 5] = ["", "\"unknown\":{\"x\":1}", "\"id\":9", "\"method\":\"fail\"", "\"jsonrpc\":\"2.0\""];

fn build(order: &[usize], id: Option<&str>, method: &str, params: Option<&str>, ver: Option<&str>, extra: &str, ws: usize) -> Vec<u8> {
	let mut members: Vec<String> = Vec::new();
	for k in order {
		match k {
			0 => {
				if let Some(v) = ver {
					members.push(format!("\"jsonrpc\":{v}"));
				}
			}
			1 => {
				if let Some(i) = id {
					members.push(format!("\"id\":{i}"));
				}
			}
			2 => members.push(format!("\"method\":{method}")),
			_ => {
				if let Some(p) = params {
					members.push(format!("\"params\":{p}"));
				}
			}
		}
	}
	if !extra.is_empty() {
		members.push(extra.to_string());
	}
	let mut out = vec![b' '; ws];
	if ws == 127 {
		// mix of all ASCII whitespace kinds the sniffing window accepts
		for (k, b) in out.iter_mut().enumerate() {
			*b = [b' ', b'\t', b'\n', b'\r'][k % 4];
		}
	}
	out.extend_from_slice(format!("{{{}}}", members.join(",")).as_bytes());
	out
}

fn perms4() -> Vec<[usize; 4]> {
	let mut v = Vec::new();
	for a in 0..4 {
		for b in 0..4 {
			for c in 0..4 {
				for d in 0..4 {
					if a != b && a != c && a != d && b != c && b != d && c != d {
						v.push([a, b, c, d]);
					}
				}
			}
		}
	}
	v
}

const TOKENS: [&str; 14] = ["{", "}", "[", "]", ",", ":", "\"jsonrpc\"", "\"2.0\"", "\"id\"", "\"method\"", "\"sync_echo\"", "\"params\"", "1", "null"];
const SIGMA: [u8; 15] = [b'{', b'}', b'[', b']', b',', b':', b'"', b'\\', b'0', b'1', b'a', b' ', 0xff, 0x00, 0x0c];

const BASES: [&str; 12] = [
	r#"{"jsonrpc":"2.0","id":1,"method":"sync_echo","params":[1,"x"]}"#,
	r#"{"jsonrpc":"2.0","method":"sync_echo","params":[1]}"#,
	r#"{"jsonrpc":"2.0","id":"s","method":"add","params":[1,2]}"#,
	r#"[{"jsonrpc":"2.0","id":1,"method":"add","params":[1,2]},{"jsonrpc":"2.0","method":"x"}]"#,
	r#" {"id":null,"jsonrpc":"2.0","method":"fail"}"#,
	r#"{"jsonrpc":"2.0","id":7,"method":"blocking_echo","params":{"a":[true,null]}}"#,
	r#"{"jsonrpc":"2.0","id":7,"method":"async_echo"}"#,
	r#"{"jsonrpc":"2.0","id":18446744073709551615,"method":"nope"}"#,
	r#"[{"jsonrpc":"2.0","id":1,"method":"sync_echo"}]"#,
	r#"{"jsonrpc":"2.0","id":"é","method":"sync_echo","params":["\u00e9\"\\"]}"#,
	r#"{"method":"add","params":[1,2],"id":3,"jsonrpc":"2.0"}"#,
	r#"{"jsonrpc":"2.0","id":1,"method":"blocking_panic"}"#,
];

/// Build the case list for the tier (deduplicated).
pub fn cases(thorough: bool) -> Vec<(&'static str, Vec<u8>)> {
	let mut out: Vec<(&'static str, Vec<u8>)> = Vec::new();
	let std_order = [0usize, 1, 2, 3];
	// REQ: full product in canonical order
	for id in IDS {
		for m in METHODS {
			for p in PARAMS {
				for v in VERSIONS {
					out.push(("req", build(&std_order, id, m, p, v, "", 0)));
				}
			}
		}
	}
	// REQ: member orders × extras × leading whitespace on a sub-product
	let ids2: &[Option<&str>] = if thorough { &IDS[..10] } else { &[Some("1"), None, Some("null"), Some("\"a\""), Some("1.0")] };
	let m2: &[&str] = if thorough { &METHODS[..8] } else { &["\"sync_echo\"", "\"blocking_echo\"", "\"nope\"", "7"] };
	let p2: &[Option<&str>] = if thorough { &PARAMS[..6] } else { &[None, Some("[1,2]"), Some("{\"a\":1}")] };
	let v2: &[Option<&str>] = if thorough { &VERSIONS } else { &[Some("\"2.0\""), None] };
	for id in ids2 {
		for m in m2 {
			for p in p2 {
				for v in v2 {
					for o in perms4() {
						for e in EXTRAS {
							for ws in [0usize, 1, 127] {
								out.push(("req-order", build(&o, *id, m, *p, *v, e, ws)));
							}
						}
					}
				}
			}
		}
	}
	// TOK
	let l = if thorough { 6 } else { 5 };
	let n = seq_count(TOKENS.len(), l - 1);
	for first in ["{", "["] {
		for i in 0..n {
			let s = seq_decode(i, TOKENS.len(), l - 1);
			let mut t = String::from(first);
			for k in s {
				t.push_str(TOKENS[k]);
			}
			out.push(("tok", t.into_bytes()));
		}
	}
	// MUT
	let nb = if thorough { BASES.len() } else { 5 };
	for b in &BASES[..nb] {
		let b = b.as_bytes();
		for i in 0..b.len() {
			let mut d = b.to_vec();
			d.remove(i);
			out.push(("mut", d));
			let mut d = b.to_vec();
			d.insert(i, b[i]);
			out.push(("mut", d));
			for s in SIGMA {
				let mut d = b.to_vec();
				d[i] = s;
				out.push(("mut", d));
			}
			out.push(("mut", b[..i].to_vec()));
		}
	}
	// BYTES
	for a in 0..=255u8 {
		out.push(("bytes", vec![a]));
		for b in 0..=255u8 {
			if thorough || a.is_ascii_whitespace() || b"{[\"0n".contains(&a) || a >= 0x80 || (b % 4 == a % 4) {
				out.push(("bytes", vec![a, b]));
			}
		}
	}
	out.push(("bytes", vec![]));
	for b in &BASES[..if thorough { 6 } else { 2 }] {
		let b = b.as_bytes();
		for i in 0..b.len() {
			for x in 0..=255u8 {
				let mut d = b.to_vec();
				d[i] = x;
				out.push(("bytes-replace", d));
			}
		}
	}
	// batch entries that are arrays spelling a request positionally (serde accepts structs encoded as sequences)
	for t in [
		r#"[["2.0",1,"sync_echo",[1]]]"#,
		r#"[["2.0","sync_echo",[1]]]"#,
		r#"[[1]]"#,
		r#"[{"jsonrpc":"2.0","id":1,"method":"add","params":[1,2]},["2.0",2,"add",[3,4]]]"#,
		r#"[[null]]"#,
		r#"[["x"]]"#,
	] {
		out.push(("array-encoded-entry", t.as_bytes().to_vec()));
	}
	// dedup
	let mut seen = std::collections::HashSet::new();
	out.retain(|(_, b)| seen.insert(b.clone()));
	out
}

fn feature(msg: &[u8], exp: &Expect) -> String {
	// the distinguishing feature of a case for the violation signature: which handler / message class
	let s = String::from_utf8_lossy(msg);
	if s.contains("blocking_panic") {
		return "blocking_panic".into();
	}
	match exp {
		Expect::Weak => "duplicate-members".into(),
		Expect::Nothing => "notification".into(),
		Expect::One(r) => match (&r.handler, &r.payload) {
			(Some(h), _) => format!("call:{h}"),
			(None, srvref::Payload::Err(c)) => format!("err{}", c[0]),
			_ => "other".into(),
		},
		Expect::Array(rs) => {
			if rs.iter().any(|r| r.handler.as_deref() == Some("sub")) { "batch-with-subscribe".into() } else { "batch".into() }
		}
	}
}

pub fn run_case(rep: &Reporter, local: &mut Local, rt: &tokio::runtime::Runtime, http: &mut srv::HttpSvc, ws: &srv::WsServer, gen_name: &str, msg: &[u8], batch: BatchRequestConfig, prop_sig_prefix: &str) {
	run_case_with(rep, local, gen_name, msg, batch, prop_sig_prefix, |t| match t {
		Transport::Http => rt.block_on(srvref::http_roundtrip(http, msg)),
		Transport::Ws => rt.block_on(srvref::ws_roundtrip(ws, msg)),
	});
}

/// Judge one message on both transports; `roundtrip` delivers it and returns what came back.
pub fn run_case_with(rep: &Reporter, local: &mut Local, gen_name: &str, msg: &[u8], batch: BatchRequestConfig, prop_sig_prefix: &str, roundtrip: impl FnMut(Transport) -> srvref::Observed) {
	run_case_on(rep, local, gen_name, msg, batch, prop_sig_prefix, &[Transport::Http, Transport::Ws], roundtrip)
}

/// The same judgement on the listed transports only (the HTTP/2 leg has no WebSocket side).
#[allow(clippy::too_many_arguments)]
pub fn run_case_on(rep: &Reporter, local: &mut Local, gen_name: &str, msg: &[u8], batch: BatchRequestConfig, prop_sig_prefix: &str, transports: &[Transport], mut roundtrip: impl FnMut(Transport) -> srvref::Observed) {
	let mut objs: Vec<Option<serde_json::Value>> = Vec::new();
	let mut classes = Vec::new();
	for t in transports.iter().copied() {
		let exp = srvref::expect(msg, t, batch);
		let obs = roundtrip(t);
		let tn = if t == Transport::Http { "http" } else { "ws" };
		let feat = feature(msg, &exp);
		let case = json!({"engine":"ENUM","generator": gen_name, "transport": tn, "batch_config": format!("{batch:?}"),
			"message": String::from_utf8_lossy(msg), "message_hex": hex(msg),
			"replies": obs.replies.iter().map(|r| String::from_utf8_lossy(r).to_string()).collect::<Vec<_>>(),
			"handlers": obs.handlers, "http_status": obs.http_status, "expected": format!("{exp:?}")});
		if let Some(p) = &obs.problem {
			rep.violation(&format!("{prop_sig_prefix}{tn}:transport-problem:{feat}"), &format!("{tn}: {p}"), case.clone());
		}
		if !obs.sentinel_ok {
			rep.violation(&format!("{prop_sig_prefix}{tn}:stops-serving:{feat}"), &format!("{tn}: after the message a later valid call was not answered"), case.clone());
		}
		let mut class = "ok".to_string();
		if let Err((clause, detail)) = srvref::judge(&obs.replies, &exp) {
			class = clause.clone();
			rep.violation(&format!("{prop_sig_prefix}{tn}:{clause}:{feat}"), &format!("{tn} message {:?}: {detail}", String::from_utf8_lossy(msg)), case.clone());
		}
		if let Some(mut eh) = srvref::expected_handlers(&exp) {
			let mut got = obs.handlers.clone();
			got.sort();
			eh.sort();
			if got != eh {
				class = "handlers".into();
				rep.violation(&format!("{prop_sig_prefix}{tn}:handlers-run:{feat}"), &format!("{tn} message {:?}: handlers run {got:?}, expected {eh:?}", String::from_utf8_lossy(msg)), case.clone());
			}
		}
		if t == Transport::Http {
			if let Some(st) = obs.http_status {
				let oversize = false;
				let _ = oversize;
				if obs.replies.is_empty() && st != 200 {
					rep.violation(&format!("{prop_sig_prefix}http:ack-status:{feat}"), &format!("no-reply acknowledgement has status {st}"), case.clone());
				}
			}
		}
		classes.push(format!("{tn}:{}:{class}", exp_name(&exp)));
		objs.push(if obs.replies.len() == 1 { serde_json::from_slice(&obs.replies[0]).ok() } else { None });
		if hash_of(msg) % 30011 == 7 && t == Transport::Ws {
			rep.sample(case);
		}
	}
	// HTTP ≡ WS for non-subscription methods
	let s = String::from_utf8_lossy(msg);
	let subby = s.contains("sub");
	if !subby && objs.len() == 2 {
		if let (Some(a), Some(b)) = (&objs[0], &objs[1]) {
			if a != b {
				rep.violation(
					&format!("{prop_sig_prefix}http-vs-ws-differ"),
					&format!("message {:?}: HTTP answers {a}, WebSocket answers {b}", s),
					json!({"engine":"ENUM","message": s, "http": a, "ws": b}),
				);
			}
		}
	}
	local.case(hash_of(msg) ^ hash_of(&format!("{batch:?}")) ^ if transports.len() == 2 { 0 } else { hash_of(&prop_sig_prefix) }, true, &classes.join("|"));
}

fn exp_name(e: &Expect) -> &'static str {
	match e {
		Expect::Nothing => "nothing",
		Expect::One(_) => "one",
		Expect::Array(_) => "array",
		Expect::Weak => "weak",
	}
}

pub fn hex(b: &[u8]) -> String {
	b.iter().map(|x| format!("{x:02x}")).collect()
}

pub fn check(rep: &Reporter) {
	let thorough = rep.tier.thorough();
	rep.set_rule(
		"messages = REQ (21 id forms × 12 methods incl. every handler kind, unknown, empty, escaped spelling, non-string × 11 params × 6 versions (incl. an escaped spelling of 2.0); plus all 24 member orders × 5 extra members incl. duplicates × {0,1,127} leading whitespace bytes on a sub-product) ∪ TOK (all token strings of length ≤5 (thorough 6) over 14 tokens starting with { or [) ∪ MUT (delete/duplicate/replace-by-15-bytes/truncate at every position of 5 (thorough 12) base requests) ∪ BYTES (all strings of ≤2 bytes (quick: a dense subset of the 2-byte ones), every single-byte replacement in 2 (thorough 6) bases); each distinct byte string is sent over HTTP and over a fresh WebSocket connection followed by a sentinel call; all frames until close are collected; the REQ product in canonical order (quick: version 2.0 only) and TOK ≤ 3 additionally travel through Server::start over loopback TCP (raw HTTP/1.1 keep-alive connection resp. soketto client), bare, as the body of an HTTP/2 request, and behind the built-in RPC logger middleware (quick: the logger for TOK and the params-less REQ messages), judged by the same classifier. Oracle = independent classifier on a duplicate-preserving JSON tree. Distinct by byte string; every case is non-trivial (it is executed on both transports).",
	);
	rep.assume("`null` params are 'no params'; ASCII form feed counts as leading whitespace (the library's sniffing window uses is_ascii_whitespace)");
	let cases = cases(thorough);
	rep.extra("cases_by_generator", {
		let mut m = std::collections::BTreeMap::new();
		for (g, _) in &cases {
			*m.entry(*g).or_insert(0u64) += 1;
		}
		json!(m)
	});
	let cfg = || srv::cfg_builder().build();
	par_for(rep, cases.len(), 16, || (srv::rt(), srv::http_service(cfg()), srv::ws_server(cfg())), |i, (rt, http, ws), local| {
		let (g, msg) = &cases[i];
		let _e = rt.enter();
		run_case(rep, local, rt, http, ws, g, msg, BatchRequestConfig::Unlimited, "");
	});
	// SRV-TCP leg: the same judgement with the message travelling through `Server::start` (accept loop, hyper's HTTP/1.1
	// framing, the WebSocket upgrade) over loopback sockets. Family: the REQ product in canonical member order (quick:
	// version "2.0" only) and every TOK string of length ≤ 3.
	{
		let fam: Vec<(&'static str, Vec<u8>)> = cases
			.iter()
			.filter(|(g, m)| match *g {
				"req" => thorough || m.windows(15).any(|w| w == b"\"jsonrpc\":\"2.0\""),
				"tok" => tok_len(m) <= 3,
				_ => false,
			})
			.map(|(g, m)| (if *g == "req" { "tcp-req" } else { "tcp-tok" }, m.clone()))
			.collect();
		rep.extra("tcp_leg_cases", json!(fam.len()));
		par_for(rep, fam.len(), 8, srv::rt, |i, rt, local| {
			let (g, msg) = &fam[i];
			let _e = rt.enter();
			tcp_case(rep, local, rt, g, msg, BatchRequestConfig::Unlimited, false);
			// as the body of an HTTP/2 request (UTF-8 or not: the body is opaque to the transport)
			h2_case(rep, local, rt, g, msg, BatchRequestConfig::Unlimited);
			// with the RPC logger middleware: every TOK string; of the REQ product every message in the thorough tier, in
			// the quick tier those without a params member
			if *g == "tcp-tok" || thorough || !msg.windows(8).any(|w| w == b"\"params\"") {
				tcp_case(rep, local, rt, g, msg, BatchRequestConfig::Unlimited, true);
			}
		});
	}
	// SCHED leg (configuration: message_buffer_capacity 1–2, pipelined calls)
	for s in pipelined_scenarios(thorough) {
		crate::sched::explore_auto(&s, rep, if thorough { 400_000 } else { 20_000 }, if thorough { 3 } else { 2 }, 50, std::time::Duration::from_secs(if thorough { 300 } else { 8 }));
	}
}

// ---------------------------------------------------------------------------------------------
// SCHED leg: pipelined calls on one WebSocket connection with a tiny outgoing buffer; every call is answered exactly once
// whatever the order of the per-call tasks and the connection's send task.

pub struct Pipelined {
	pub calls: usize,
	pub buffer: u32,
	pub slow: bool,
}

impl crate::sched::Scenario for Pipelined {
	type State = crate::smem::SrvState;
	fn name(&self) -> String {
		format!("srv_mem/pipelined:calls{}:buffer{}:{}", self.calls, self.buffer, if self.slow { "slow" } else { "sync" })
	}
	fn config(&self) -> serde_json::Value {
		json!({"pipelined_calls": self.calls, "message_buffer_capacity": self.buffer, "handler": if self.slow { "async, parks at a point" } else { "sync" }})
	}
	fn mask(&self) -> fn(&str) -> bool {
		super::c04::mask_all_server
	}
	fn max_steps(&self) -> usize {
		300
	}
	fn setup(&self) -> Self::State {
		use crate::smem::{Conn, PeerAct, SrvCfg};
		let act = if self.slow { PeerAct::SlowCall } else { PeerAct::Call };
		crate::smem::setup(&SrvCfg { conns: vec![Conn::Ws(vec![act; self.calls])], buffer: self.buffer, slow_steps: 1, ..Default::default() })
	}
	fn judge(&self, _st: Self::State, trace: &[String], panics: &[String], status: crate::sched::Status) -> crate::sched::Verdict {
		let mut v = Vec::new();
		if status != crate::sched::Status::Quiescent {
			v.push((format!("machinery:{status:?}"), format!("{status:?}")));
		}
		for p in panics {
			v.push(("panic".into(), p.clone()));
		}
		let mut outcome = Vec::new();
		for l in trace {
			let Some(t) = l.strip_prefix("c0:tx:") else { continue };
			let Ok(m) = serde_json::from_str::<serde_json::Value>(t) else { continue };
			let id = m["id"].clone();
			let replies = trace.iter().filter(|x| x.strip_prefix("c0:rx:").and_then(|r| serde_json::from_str::<serde_json::Value>(r).ok()).map_or(false, |r| r["id"] == id)).count();
			outcome.push(replies);
			if replies != 1 {
				v.push((
					format!("pipelined:{}-replies", if replies == 0 { "no".to_string() } else { replies.to_string() }),
					format!("{} pipelined calls with message_buffer_capacity = {}: the call with id {id} got {replies} replies although the connection stayed open", self.calls, self.buffer),
				));
			}
		}
		crate::sched::Verdict { violations: v, outcome: format!("{outcome:?}") }
	}
}

pub fn pipelined_scenarios(thorough: bool) -> Vec<Pipelined> {
	let mut v = vec![Pipelined { calls: 3, buffer: 1, slow: false }, Pipelined { calls: 2, buffer: 1, slow: true }, Pipelined { calls: 3, buffer: 2, slow: false }];
	if thorough {
		v.push(Pipelined { calls: 4, buffer: 1, slow: false });
		v.push(Pipelined { calls: 3, buffer: 1, slow: true });
	}
	v
}

pub fn dyn_scenarios() -> Vec<Box<dyn crate::sched::DynScenario>> {
	let mut v: Vec<Box<dyn crate::sched::DynScenario>> = Vec::new();
	for s in pipelined_scenarios(true) {
		v.push(Box::new(s));
	}
	v
}


fn tok_len(m: &[u8]) -> usize {
	// number of tokens of a TOK string: greedy match against the token alphabet
	let s = String::from_utf8_lossy(m);
	let mut rest: &str = &s;
	let mut n = 0;
	'outer: while !rest.is_empty() {
		let mut toks: Vec<&str> = TOKENS.iter().copied().chain(["{", "["]).collect();
		toks.sort_by_key(|t| std::cmp::Reverse(t.len()));
		for t in toks {
			if !t.is_empty() && rest.starts_with(t) {
				rest = &rest[t.len()..];
				n += 1;
				continue 'outer;
			}
		}
		return usize::MAX;
	}
	n
}

/// One message through a real `Server` over loopback: HTTP (message, then the sentinel on the same keep-alive
/// connection) and WebSocket (message, sentinel; after the sentinel's reply the server is stopped and everything until
/// the close is collected).
pub async fn tcp_roundtrips(msg: &[u8], log: srv::InvLog, cfg: jsonrpsee_server::ServerConfig, middleware: bool) -> Result<(srvref::Observed, srvref::Observed), String> {
	use tokio::io::AsyncWriteExt;
	use tokio_util::compat::TokioAsyncReadCompatExt;
	let listener = std::net::TcpListener::bind("127.0.0.1:0").map_err(|e| format!("bind: {e}"))?;
	listener.set_nonblocking(true).map_err(|e| e.to_string())?;
	let addr = listener.local_addr().map_err(|e| e.to_string())?;
	// `middleware`: the built-in RPC logger (truncating at 16 bytes, so that truncation paths run) below an HTTP layer
	// stack that does nothing; replies must be byte-for-byte what the bare server sends
	let handle = if middleware {
		let server = jsonrpsee_server::Server::builder()
			.set_config(cfg)
			.set_rpc_middleware(jsonrpsee_server::middleware::rpc::RpcServiceBuilder::new().rpc_logger(16))
			.set_http_middleware(tower::ServiceBuilder::new().layer(tower::layer::util::Identity::new()))
			.build_from_tcp(listener)
			.map_err(|e| format!("build: {e}"))?;
		server.start(srv::std_module(log.clone()))
	} else {
		let server = jsonrpsee_server::Server::builder().set_config(cfg).build_from_tcp(listener).map_err(|e| format!("build: {e}"))?;
		server.start(srv::std_module(log.clone()))
	};
	// ---- HTTP
	let mut http = srvref::Observed { replies: vec![], notifications: vec![], handlers: vec![], sentinel_ok: false, http_status: None, problem: None };
	{
		let mut io = tokio::net::TcpStream::connect(addr).await.map_err(|e| format!("connect: {e}"))?;
		let post = |body: &[u8]| {
			let mut r = format!("POST / HTTP/1.1\r\nhost: localhost\r\ncontent-type: application/json\r\ncontent-length: {}\r\n\r\n", body.len()).into_bytes();
			r.extend_from_slice(body);
			r
		};
		log.lock().unwrap().clear();
		io.write_all(&post(msg)).await.map_err(|e| format!("write: {e}"))?;
		match read_response(&mut io).await {
			Some((status, body)) => {
				http.http_status = Some(status);
				if !(body.is_empty() || body == b"null") {
					http.replies.push(body);
				}
			}
			None => http.problem = Some("no HTTP response".into()),
		}
		http.handlers = log.lock().unwrap().clone();
		// the sentinel on the same connection (keep-alive), or on a new one if the server closed it
		let mut ok = false;
		if io.write_all(&post(srvref::SENTINEL.as_bytes())).await.is_ok() {
			if let Some((200, b)) = read_response(&mut io).await {
				ok = srvref::is_sentinel_reply(&b);
			}
		}
		if !ok {
			if let Ok(mut io2) = tokio::net::TcpStream::connect(addr).await {
				if io2.write_all(&post(srvref::SENTINEL.as_bytes())).await.is_ok() {
					if let Some((200, b)) = read_response(&mut io2).await {
						ok = srvref::is_sentinel_reply(&b);
					}
				}
			}
		}
		http.sentinel_ok = ok;
	}
	// ---- WebSocket
	let mut ws = srvref::Observed { replies: vec![], notifications: vec![], handlers: vec![], sentinel_ok: false, http_status: None, problem: None };
	{
		log.lock().unwrap().clear();
		let io = tokio::net::TcpStream::connect(addr).await.map_err(|e| format!("connect: {e}"))?;
		let mut client = soketto::handshake::Client::new(io.compat(), "localhost", "/");
		match client.handshake().await {
			Ok(soketto::handshake::ServerResponse::Accepted { .. }) => {}
			other => return Err(format!("handshake: {:?}", other.map(|_| "not accepted"))),
		}
		let mut b = client.into_builder();
		b.set_max_message_size(64 << 20);
		let (mut sender, mut receiver) = b.finish();
		let text = std::str::from_utf8(msg).map_err(|_| "the TCP leg only carries UTF-8 messages".to_string())?;
		let sent = async {
			sender.send_text(text).await?;
			sender.send_text(srvref::SENTINEL).await?;
			sender.flush().await
		}
		.await;
		if let Err(e) = sent {
			ws.problem = Some(format!("send: {e}"));
		}
		let mut stopped = false;
		let mut buf = Vec::new();
		loop {
			buf.clear();
			match tokio::time::timeout(std::time::Duration::from_secs(20), receiver.receive_data(&mut buf)).await {
				Err(_) => {
					ws.problem = Some("hang: no frame and no close within 20 s".into());
					break;
				}
				Ok(Err(_)) => break,
				Ok(Ok(_)) => {}
			}
			let f = buf.clone();
			if srvref::is_sentinel_reply(&f) {
				ws.sentinel_ok = serde_json::from_slice::<serde_json::Value>(&f).map_or(false, |v| v["result"] == 42);
				if !stopped {
					stopped = true;
					let _ = handle.stop();
				}
				continue;
			}
			match crate::refmodel::PJ::parse(&f) {
				Some(v) if srvref::is_notification_frame(&v) => ws.notifications.push(f),
				_ => ws.replies.push(f),
			}
		}
		ws.handlers = log.lock().unwrap().iter().filter(|h| *h != "add").cloned().collect();
		let adds = log.lock().unwrap().iter().filter(|h| *h == "add").count();
		for _ in 1..adds {
			ws.handlers.push("add".into());
		}
	}
	let _ = handle.stop();
	let _ = tokio::time::timeout(std::time::Duration::from_secs(20), handle.stopped()).await;
	Ok((http, ws))
}

/// Read one HTTP/1.1 response with Content-Length or chunked framing from a keep-alive connection.
pub async fn read_response(io: &mut tokio::net::TcpStream) -> Option<(u16, Vec<u8>)> {
	use tokio::io::AsyncReadExt;
	let mut buf: Vec<u8> = Vec::new();
	let mut tmp = [0u8; 4096];
	let deadline = std::time::Duration::from_secs(20);
	loop {
		if let Some(pos) = buf.windows(4).position(|w| w == b"\r\n\r\n") {
			let head = String::from_utf8_lossy(&buf[..pos]).to_ascii_lowercase();
			let status: u16 = head.split_whitespace().nth(1)?.parse().ok()?;
			let mut body = buf[pos + 4..].to_vec();
			if let Some(len) = head.lines().find_map(|l| l.strip_prefix("content-length:").map(|v| v.trim().parse::<usize>().unwrap_or(0))) {
				while body.len() < len {
					let n = tokio::time::timeout(deadline, io.read(&mut tmp)).await.ok()?.ok()?;
					if n == 0 {
						return None;
					}
					body.extend_from_slice(&tmp[..n]);
				}
				body.truncate(len);
				return Some((status, body));
			}
			if head.contains("transfer-encoding: chunked") {
				// de-chunk
				loop {
					let mut out = Vec::new();
					let mut rest: &[u8] = &body;
					let mut complete = false;
					loop {
						let Some(eol) = rest.windows(2).position(|w| w == b"\r\n") else { break };
						let Ok(sz) = usize::from_str_radix(String::from_utf8_lossy(&rest[..eol]).trim(), 16) else { return None };
						if rest.len() < eol + 2 + sz + 2 {
							break;
						}
						if sz == 0 {
							complete = true;
							break;
						}
						out.extend_from_slice(&rest[eol + 2..eol + 2 + sz]);
						rest = &rest[eol + 2 + sz + 2..];
					}
					if complete {
						return Some((status, out));
					}
					let n = tokio::time::timeout(deadline, io.read(&mut tmp)).await.ok()?.ok()?;
					if n == 0 {
						return None;
					}
					body.extend_from_slice(&tmp[..n]);
				}
			}
			// no framing header: body until close
			loop {
				let n = tokio::time::timeout(deadline, io.read(&mut tmp)).await.ok()?.ok()?;
				if n == 0 {
					return Some((status, body));
				}
				body.extend_from_slice(&tmp[..n]);
			}
		}
		let n = tokio::time::timeout(deadline, io.read(&mut tmp)).await.ok()?.ok()?;
		if n == 0 {
			return None;
		}
		buf.extend_from_slice(&tmp[..n]);
	}
}


/// Deliver `msg` through a real `Server` over loopback (with this batch configuration) and judge it like any other case.
/// The message as the body of an HTTP/2 POST (prior knowledge) against `Server::start` over loopback, then the sentinel on
/// the same connection.
pub async fn h2_roundtrip(msg: &[u8], log: srv::InvLog, cfg: jsonrpsee_server::ServerConfig) -> Result<srvref::Observed, String> {
	let listener = std::net::TcpListener::bind("127.0.0.1:0").map_err(|e| format!("bind: {e}"))?;
	listener.set_nonblocking(true).map_err(|e| e.to_string())?;
	let addr = listener.local_addr().map_err(|e| e.to_string())?;
	let server = jsonrpsee_server::Server::builder().set_config(cfg).build_from_tcp(listener).map_err(|e| format!("build: {e}"))?;
	let handle = server.start(srv::std_module(log.clone()));
	let mut obs = srvref::Observed { replies: vec![], notifications: vec![], handlers: vec![], sentinel_ok: false, http_status: None, problem: None };
	let mut conn = srv::h2_connect(addr).await?;
	let post = |body: &[u8]| http::Request::builder().method("POST").uri(format!("http://{addr}/")).header("content-type", "application/json").body(srv::FramesBody::single(body.to_vec())).unwrap();
	log.lock().unwrap().clear();
	match tokio::time::timeout(std::time::Duration::from_secs(10), conn.request(post(msg))).await {
		Ok(Ok(o)) => {
			obs.http_status = Some(o.status);
			if !(o.body.is_empty() || o.body == b"null") {
				obs.replies.push(o.body);
			}
		}
		Ok(Err(e)) => obs.problem = Some(format!("HTTP/2 request failed: {e}")),
		Err(_) => obs.problem = Some("hang: no HTTP/2 response within 10 s".into()),
	}
	obs.handlers = log.lock().unwrap().clone();
	if let Ok(Ok(o)) = tokio::time::timeout(std::time::Duration::from_secs(10), conn.request(post(srvref::SENTINEL.as_bytes()))).await {
		obs.sentinel_ok = o.status == 200 && srvref::is_sentinel_reply(&o.body);
	}
	let _ = handle.stop();
	Ok(obs)
}

pub fn h2_case(rep: &Reporter, local: &mut Local, rt: &tokio::runtime::Runtime, gen_name: &str, msg: &[u8], batch: BatchRequestConfig) {
	let mut attempt = 0;
	loop {
		attempt += 1;
		let log: srv::InvLog = Default::default();
		match rt.block_on(h2_roundtrip(msg, log, srv::cfg_builder().set_batch_request_config(batch).build())) {
			Ok(o) => {
				let mut o = Some(o);
				run_case_on(rep, local, gen_name, msg, batch, "tcp:h2:", &[Transport::Http], |_| o.take().unwrap());
				break;
			}
			Err(_) if attempt < 3 => std::thread::sleep(std::time::Duration::from_millis(50 * attempt)),
			Err(e) => {
				rep.machinery_error(format!("SRV-TCP HTTP/2 leg: {e} (message {:?})", String::from_utf8_lossy(msg)));
				break;
			}
		}
	}
}

pub fn tcp_case(rep: &Reporter, local: &mut Local, rt: &tokio::runtime::Runtime, gen_name: &str, msg: &[u8], batch: BatchRequestConfig, middleware: bool) {
	let mut attempt = 0;
	loop {
		attempt += 1;
		let log: srv::InvLog = Default::default();
		let r = rt.block_on(tcp_roundtrips(msg, log, srv::cfg_builder().set_batch_request_config(batch).build(), middleware));
		match r {
			Ok((h, w)) => {
				let mut h = Some(h);
				let mut w = Some(w);
				run_case_with(rep, local, gen_name, msg, batch, if middleware { "tcp+middleware:" } else { "tcp:" }, |t| match t {
					Transport::Http => h.take().unwrap(),
					Transport::Ws => w.take().unwrap(),
				});
				break;
			}
			// operating-system level trouble (ports, descriptors) is not a verdict: retry, then report as machinery
			Err(_) if attempt < 3 => std::thread::sleep(std::time::Duration::from_millis(50 * attempt)),
			Err(e) => {
				rep.machinery_error(format!("SRV-TCP leg: {e} (message {:?})", String::from_utf8_lossy(msg)));
				break;
			}
		}
	}
}
