//! C05 — a client subscription stream yields exactly its own notifications, in order (SCHED + ENUM on CLI-MEM).

use crate::clim::{MockRx, MockTx, Shared};
use crate::par::par_for;
use crate::report::Reporter;
use crate::sched::{self, Scenario, Status, Verdict};
use jsonrpsee_core::client::async_client::{Client, ClientBuilder};
use jsonrpsee_core::client::{ClientT, IdKind, ReceivedMessage, Subscription, SubscriptionClientT, SubscriptionCloseReason};
use jsonrpsee_core::rpc_params;
use serde_json::{Value, json};
use std::collections::VecDeque;
use std::sync::{Arc, Mutex};
use std::time::Duration;
use tokio::sync::Notify;

#[derive(Clone, Copy, Debug, PartialEq)]
pub enum Push {
	/// next notification for subscription A / B
	NA,
	NB,
	/// notification for a subscription id nobody holds
	NU,
	/// subscription error (= close) notification for A
	EA,
	/// plain method notification
	MN,
	/// response to the pending call
	RC,
}
const PUSHES: [Push; 6] = [Push::NA, Push::NB, Push::EA, Push::NU, Push::MN, Push::RC];

#[derive(Clone, Copy, Debug, PartialEq)]
pub enum Act {
	Next,
	Unsub,
	Drop,
}

pub struct SubScenario {
	pub sub_ids_numeric: bool,
	pub id_kind: IdKind,
	pub cap: usize,
	pub groups: Vec<Vec<Push>>,
	pub consumer: Vec<Act>,
	/// what the close notification's `error` member holds: 0 a plain string, 1 an object, 2 null, 3 a number,
	/// 4 a string with escapes
	pub close_payload: u8,
	/// the client is built through `WsClientBuilder` with an RPC middleware installed (`Some(true)`: as the last builder
	/// call, `Some(false)`: as the first) instead of the core `ClientBuilder`
	pub ws_builder: Option<bool>,
}

pub struct SubState {
	shared: Arc<Shared>,
	client: Arc<Client>,
	/// keeps A alive when the script ends while still holding it
	keep_a: Arc<Mutex<Option<Subscription<Value>>>>,
	call_result: Arc<Mutex<Option<String>>>,
	ready: Arc<Mutex<bool>>,
}

fn mask(l: &str) -> bool {
	!(l.starts_with("server:") || l.starts_with("client:"))
}

impl SubScenario {
	fn sid(&self, which: char) -> Value {
		if self.sub_ids_numeric {
			json!(if which == 'A' { 11 } else { 22 })
		} else {
			json!(format!("S{which}"))
		}
	}
	fn element(&self, p: Push, counters: &mut (u32, u32)) -> String {
		match p {
			Push::NA => {
				counters.0 += 1;
				json!({"jsonrpc":"2.0","method":"n","params":{"subscription": self.sid('A'), "result": format!("A{}", counters.0)}}).to_string()
			}
			Push::NB => {
				counters.1 += 1;
				json!({"jsonrpc":"2.0","method":"n","params":{"subscription": self.sid('B'), "result": format!("B{}", counters.1)}}).to_string()
			}
			Push::NU => json!({"jsonrpc":"2.0","method":"n","params":{"subscription": if self.sub_ids_numeric { json!(99) } else { json!("nobody") }, "result": "stray"}}).to_string(),
			Push::EA => {
				let payload = match self.close_payload {
					1 => json!({"code": 7, "message": "closed by server", "data": [1, 2]}),
					2 => Value::Null,
					3 => json!(17),
					4 => json!("closed \"by\"\nserver"),
					_ => json!("closed by server"),
				};
				json!({"jsonrpc":"2.0","method":"n","params":{"subscription": self.sid('A'), "error": payload}}).to_string()
			}
			Push::MN => json!({"jsonrpc":"2.0","method":"n","params":["method-notification"]}).to_string(),
			Push::RC => {
				let id = if matches!(self.id_kind, IdKind::String) { json!("4") } else { json!(4) };
				json!({"jsonrpc":"2.0","id": id, "result": "rc"}).to_string()
			}
		}
	}
	fn texts(&self) -> Vec<String> {
		let mut c = (0, 0);
		self.groups
			.iter()
			.map(|g| {
				let els: Vec<String> = g.iter().map(|p| self.element(*p, &mut c)).collect();
				if els.len() == 1 { els[0].clone() } else { format!("[{}]", els.join(",")) }
			})
			.collect()
	}
}

impl Scenario for SubScenario {
	type State = SubState;
	fn name(&self) -> String {
		format!("cli_mem/subs:cap{}:{}:{:?}:{:?}:{:?}{}", self.cap, if self.sub_ids_numeric { "num" } else { "str" }, self.id_kind, self.groups, self.consumer, if self.close_payload > 0 { format!(":close-payload{}", self.close_payload) } else { String::new() }) + match self.ws_builder { None => "", Some(true) => ":ws-builder-middleware-last", Some(false) => ":ws-builder-middleware-first" }
	}
	fn config(&self) -> Value {
		json!({"buffer_capacity": self.cap, "numeric_subscription_ids": self.sub_ids_numeric, "id_kind": format!("{:?}", self.id_kind), "push_groups": format!("{:?}", self.groups), "consumer_script": format!("{:?}", self.consumer), "messages": self.texts(), "built_with": match self.ws_builder { None => "ClientBuilder", Some(true) => "WsClientBuilder, set_rpc_middleware last", Some(false) => "WsClientBuilder, set_rpc_middleware first" }})
	}
	fn mask(&self) -> fn(&str) -> bool {
		mask
	}
	fn setup(&self) -> SubState {
		let shared = Arc::new(Shared { rx_split: false, fail_ping: false, fail_close: false,
			sent: Default::default(),
			send_calls: Default::default(),
			fail_send_at: None,
			wire_notify: Notify::new(),
			rxq: Default::default(),
			rx_notify: Notify::new(),
			tx_closed: Default::default(),
			tx_points: false,
		});
		let client: Client = match self.ws_builder {
			None => ClientBuilder::default()
				.request_timeout(Duration::from_secs(3600))
				.max_buffer_capacity_per_subscription(self.cap)
				.id_format(self.id_kind)
				.build_with_tokio(MockTx(shared.clone()), MockRx(shared.clone())),
			Some(mw_last) => crate::clim::ws_builder_plain(self.cap, self.id_kind, mw_last, shared.clone()),
		};
		let client = Arc::new(client);
		let keep_a = Arc::new(Mutex::new(None));
		let call_result = Arc::new(Mutex::new(None));
		let ready = Arc::new(Mutex::new(false));
		// responder: acknowledges subscribe calls at once (no scheduling point: not part of the explored alphabet)
		{
			let shared = shared.clone();
			let (sa, sb) = (self.sid('A'), self.sid('B'));
			tokio::spawn(async move {
				let mut k = 0;
				loop {
					shared.wait_sent(k).await;
					let m: Value = serde_json::from_str(&shared.sent_msg(k).unwrap()).unwrap_or(Value::Null);
					if m["method"] == "sub" {
						let sid = if m["params"] == json!([0]) { sa.clone() } else { sb.clone() };
						shared.push_rx(Ok(ReceivedMessage::Text(json!({"jsonrpc":"2.0","id": m["id"], "result": sid}).to_string())));
					}
					k += 1;
				}
			});
		}
		// director
		{
			let client = client.clone();
			let shared = shared.clone();
			let keep_a = keep_a.clone();
			let call_result = call_result.clone();
			let ready = ready.clone();
			let texts = self.texts();
			let script = self.consumer.clone();
			tokio::spawn(async move {
				let sub_a: Subscription<Value> = client.subscribe("sub", rpc_params![0], "unsub").await.expect("subscribe A");
				let mut sub_b: Subscription<Value> = client.subscribe("sub", rpc_params![1], "unsub").await.expect("subscribe B");
				// ids used so far: 0,1 (A) 2,3 (B); the pending call gets id 4
				{
					let client = client.clone();
					tokio::spawn(async move {
						let r = client.request::<Value, _>("m", rpc_params![]).await;
						let s = match r {
							Ok(v) => v.to_string(),
							Err(e) => format!("ERR {e:?}"),
						};
						sched::log(format!("call:{s}"));
						*call_result.lock().unwrap() = Some(s);
					});
				}
				shared.wait_sent(2).await;
				*ready.lock().unwrap() = true;
				sched::log("ready");
				// consumer B: free running
				tokio::spawn(async move {
					loop {
						match sub_b.next().await {
							Some(v) => sched::log(format!("B:item:{}", v.map(|x| x.to_string()).unwrap_or_else(|e| format!("decode:{e}")))),
							None => {
								sched::log("B:none");
								std::future::pending::<()>().await;
							}
						}
					}
				});
				// pusher
				{
					let shared = shared.clone();
					tokio::spawn(async move {
						for (g, t) in texts.into_iter().enumerate() {
							sched::point(format!("env:push:{g}")).await;
							sched::log(format!("push:{g}"));
							shared.push_rx(Ok(ReceivedMessage::Text(t)));
						}
					});
				}
				// consumer A
				tokio::spawn(async move {
					let mut sub = Some(sub_a);
					for (k, act) in script.into_iter().enumerate() {
						sched::point(format!("fe:A:{k}:{act:?}")).await;
						sched::log(format!("actA:{k}:{act:?}"));
						match act {
							Act::Next => {
								let Some(s) = sub.as_mut() else { continue };
								match s.next().await {
									Some(v) => sched::log(format!("A:item:{}", v.map(|x| x.to_string()).unwrap_or_else(|e| format!("decode:{e}")))),
									None => {
										let r = match s.close_reason() {
											Some(SubscriptionCloseReason::Lagged) => "lagged",
											Some(SubscriptionCloseReason::ConnectionClosed) => "closed",
											None => "no-reason",
										};
										sched::log(format!("A:none:{r}"));
									}
								}
							}
							Act::Unsub => {
								if let Some(s) = sub.take() {
									let _ = s.unsubscribe().await;
									sched::log("A:unsubscribed");
								}
							}
							Act::Drop => {
								drop(sub.take());
								sched::log("A:dropped");
							}
						}
					}
					*keep_a.lock().unwrap() = sub;
				});
			});
		}
		SubState { shared, client, keep_a, call_result, ready }
	}

	fn judge(&self, st: SubState, trace: &[String], panics: &[String], status: Status) -> Verdict {
		let mut v: Vec<(String, String)> = Vec::new();
		if status != Status::Quiescent {
			v.push((format!("machinery:{status:?}"), format!("{status:?}")));
		}
		if !*st.ready.lock().unwrap() {
			v.push(("machinery:prelude".into(), "the prelude (two subscriptions + pending call) did not complete".into()));
			return Verdict { violations: v, outcome: "prelude-failed".into() };
		}
		for p in panics {
			v.push(("panic".into(), p.clone()));
		}
		// ---- reference model replayed over the trace
		let cap = self.cap;
		let mut qa: VecDeque<String> = VecDeque::new();
		let mut a_active = true; // the client still routes notifications for A
		let mut a_lagged = false;
		let mut a_rx_alive = true;
		let mut a_pending_next = false;
		let mut a_stream_over = false; // consumer saw None / gave the stream up
		let mut exp_a: Vec<String> = Vec::new();
		let mut exp_unsub_a = 0usize;
		let mut b_active = true;
		let mut exp_b: Vec<String> = Vec::new();
		let mut exp_call: Option<String> = None;
		let mut cnt = (0u32, 0u32);
		let mut close_in_array = false;
		let mut unsub_optional = false;
		for line in trace {
			if let Some(g) = line.strip_prefix("push:") {
				let g: usize = g.parse().unwrap();
				let group = &self.groups[g];
				let mut qb: Vec<String> = Vec::new();
				let mut lagged_in_this_message = false;
				for p in group {
					match p {
						Push::NA => {
							cnt.0 += 1;
							if a_active {
								if !a_rx_alive {
									a_active = false;
									exp_unsub_a += 1;
								} else if qa.len() < cap {
									qa.push_back(format!("\"A{}\"", cnt.0));
								} else {
									a_lagged = true;
									a_active = false;
									exp_unsub_a += 1;
									lagged_in_this_message = true;
								}
							}
						}
						Push::NB => {
							cnt.1 += 1;
							if b_active {
								if qb.len() < cap {
									qb.push(format!("\"B{}\"", cnt.1));
								} else {
									b_active = false;
								}
							}
						}
						Push::EA => {
							if lagged_in_this_message {
								// the server closes the subscription in the very message that made it lag: the statement
								// does not say whether an unsubscribe is still due; both 0 and 1 are accepted
								unsub_optional = true;
							}
							if a_active {
								a_active = false;
								if group.len() > 1 {
									close_in_array = true;
								}
							}
						}
						Push::RC => {
							if exp_call.is_none() {
								exp_call = Some("\"rc\"".into());
							}
						}
						Push::NU | Push::MN => {}
					}
				}
				// B's free-running consumer drains after the message
				for x in qb {
					exp_b.push(format!("B:item:{x}"));
				}
				if !b_active && !exp_b.contains(&"B:none".to_string()) {
					exp_b.push("B:none".into());
				}
				// a blocked `next` of A is served
				if a_pending_next {
					if let Some(x) = qa.pop_front() {
						exp_a.push(format!("A:item:{x}"));
						a_pending_next = false;
					} else if !a_active {
						exp_a.push(format!("A:none:{}", if a_lagged { "lagged" } else { "closed" }));
						a_pending_next = false;
						a_stream_over = true;
					}
				}
			} else if let Some(rest) = line.strip_prefix("actA:") {
				let act = rest.split(':').nth(1).unwrap_or("");
				match act {
					"Next" => {
						if !a_rx_alive || a_stream_over && false {
							// nothing held
						} else if let Some(x) = qa.pop_front() {
							exp_a.push(format!("A:item:{x}"));
						} else if !a_active {
							exp_a.push(format!("A:none:{}", if a_lagged { "lagged" } else { "closed" }));
							a_stream_over = true;
						} else {
							a_pending_next = true;
						}
					}
					"Unsub" => {
						if a_rx_alive {
							if a_active {
								exp_unsub_a += 1;
							}
							a_active = false;
							a_rx_alive = false;
							qa.clear();
							exp_a.push("A:unsubscribed".into());
						}
					}
					"Drop" => {
						if a_rx_alive {
							if a_active {
								exp_unsub_a += 1;
							}
							a_active = false;
							a_rx_alive = false;
							qa.clear();
						}
						exp_a.push("A:dropped".into());
					}
					_ => {}
				}
			}
		}
		let obs_a: Vec<String> = trace.iter().filter(|l| l.starts_with("A:")).cloned().collect();
		let obs_b: Vec<String> = trace.iter().filter(|l| l.starts_with("B:")).cloned().collect();
		let feat = format!(
			"{}{}",
			if self.groups.iter().any(|g| g.len() > 1) { "grouped" } else { "single" },
			if close_in_array { ":close-notification-inside-array" } else { "" }
		);
		if obs_a != exp_a {
			let kind = if obs_a.len() > exp_a.len() && obs_a[..exp_a.len()] == exp_a[..] {
				"extra-items"
			} else if exp_a.len() > obs_a.len() && exp_a[..obs_a.len()] == obs_a[..] {
				"missing-items"
			} else {
				"different-items"
			};
			v.push((format!("stream-A:{kind}:{feat}"), format!("subscription A (buffer {cap}) observed {obs_a:?}, reference {exp_a:?}")));
		}
		if obs_b != exp_b {
			v.push((format!("stream-B:differs:{feat}"), format!("subscription B observed {obs_b:?}, reference {exp_b:?}")));
		}
		// unsubscribe requests on the wire
		let sent = st.shared.sent.lock().unwrap().clone();
		let unsub_a = sent.iter().filter(|m| serde_json::from_str::<Value>(m).map_or(false, |x| x["method"] == "unsub" && x["params"] == json!([self.sid('A')]))).count();
		if unsub_a != exp_unsub_a && !(unsub_optional && unsub_a + 1 == exp_unsub_a) {
			let why = if a_lagged { "lag" } else if trace.iter().any(|l| l == "A:unsubscribed") { "unsubscribe" } else if trace.iter().any(|l| l == "A:dropped") { "drop" } else { "none" };
			v.push((format!("unsubscribe-requests:{why}:{feat}"), format!("{unsub_a} unsubscribe request(s) naming A on the wire, reference {exp_unsub_a} ({why}); wire: {:?}", &sent[3.min(sent.len())..])));
		}
		let unsub_other = sent.iter().filter(|m| serde_json::from_str::<Value>(m).map_or(false, |x| x["method"] == "unsub" && x["params"] != json!([self.sid('A')]) && x["params"] != json!([self.sid('B')]))).count();
		if unsub_other > 0 {
			v.push(("unsubscribe-requests:foreign-id".into(), format!("an unsubscribe request names an id that is neither A nor B: {sent:?}")));
		}
		if let Err(e) = crate::clim::wire_wellformed(&sent) {
			v.push(("client-emits-invalid-jsonrpc".into(), e));
		}
		let call = st.call_result.lock().unwrap().clone();
		if call != exp_call {
			v.push((format!("pending-call:{feat}"), format!("the pending call ended as {call:?}, reference {exp_call:?}")));
		}
		if !st.client.is_connected() {
			v.push((format!("disconnected:{feat}"), "the client abandoned the connection although every message was a well-formed notification or response".into()));
		}
		let _keep = st.keep_a.lock().unwrap().take();
		Verdict { violations: v, outcome: format!("{obs_a:?}|{obs_b:?}|{unsub_a}|{call:?}") }
	}
}

fn compositions(n: usize) -> Vec<Vec<usize>> {
	// all ways to cut a sequence of length n into consecutive non-empty groups (group lengths)
	if n == 0 {
		return vec![vec![]];
	}
	let mut out = Vec::new();
	for mask in 0..(1u32 << (n - 1)) {
		let mut lens = Vec::new();
		let mut cur = 1;
		for i in 0..n - 1 {
			if mask >> i & 1 == 1 {
				lens.push(cur);
				cur = 1;
			} else {
				cur += 1;
			}
		}
		lens.push(cur);
		out.push(lens);
	}
	out
}

pub fn scenarios(thorough: bool) -> Vec<SubScenario> {
	let maxlen = if thorough { 4 } else { 3 };
	let scripts: Vec<Vec<Act>> = vec![
		vec![Act::Next, Act::Next, Act::Next, Act::Next],
		vec![Act::Next, Act::Unsub],
		vec![Act::Unsub],
		vec![Act::Drop],
		vec![Act::Next, Act::Drop],
		vec![],
		vec![Act::Next, Act::Next, Act::Unsub],
	];
	let caps: Vec<usize> = if thorough { vec![1, 2, 3] } else { vec![1, 2] };
	let mut out = Vec::new();
	let a = PUSHES.len();
	for len in 1..=maxlen {
		for idx in 0..a.pow(len as u32) {
			let mut seq = Vec::new();
			let mut x = idx;
			for _ in 0..len {
				seq.push(PUSHES[x % a]);
				x /= a;
			}
			// at most one response to the call; sequences without any A element only in the shortest form
			if seq.iter().filter(|p| **p == Push::RC).count() > 1 {
				continue;
			}
			if !seq.iter().any(|p| matches!(p, Push::NA | Push::EA)) && len > 2 {
				continue;
			}
			for comp in compositions(len) {
				let mut groups = Vec::new();
				let mut i = 0;
				for l in &comp {
					groups.push(seq[i..i + l].to_vec());
					i += l;
				}
				// a response to a single call is never packed into an array with notifications by a server
				if groups.iter().any(|g| g.len() > 1 && g.contains(&Push::RC)) {
					continue;
				}
				for cap in &caps {
					for (si, script) in scripts.iter().enumerate() {
						// quick tier: the long scripts only with the longest sequences' first groupings
						if !thorough && si >= 5 && len == 3 && comp.len() == 3 {
							continue;
						}
						let variants: Vec<(bool, IdKind)> = if thorough { vec![(false, IdKind::Number), (true, IdKind::String)] } else if (idx + si) % 2 == 0 { vec![(false, IdKind::Number)] } else { vec![(true, IdKind::String)] };
						for (numeric, kind) in variants {
							out.push(SubScenario { sub_ids_numeric: numeric, id_kind: kind, cap: *cap, groups: groups.clone(), consumer: script.clone(), close_payload: 0, ws_builder: None });
							// the same client configuration expressed through WsClientBuilder with a middleware: whenever A can
							// fall behind (two notifications for A), and on a stride otherwise
							let lag_possible = seq.iter().filter(|p| **p == Push::NA).count() >= 2;
							if (lag_possible && comp.len() == len) || (idx + si) % 7 == 0 {
								out.push(SubScenario { sub_ids_numeric: numeric, id_kind: kind, cap: *cap, groups: groups.clone(), consumer: script.clone(), close_payload: 0, ws_builder: Some((idx + si) % 2 == 0) });
							}
							// other shapes of the close notification's payload: for the reading consumer, short sequences
							if si == 0 && len <= 2 && seq.contains(&Push::EA) && *cap == caps[0] {
								for cp in 1..=4u8 {
									out.push(SubScenario { sub_ids_numeric: numeric, id_kind: kind, cap: *cap, groups: groups.clone(), consumer: script.clone(), close_payload: cp, ws_builder: None });
								}
							}
						}
					}
				}
			}
		}
	}
	out
}

pub fn check(rep: &Reporter) {
	let thorough = rep.tier.thorough();
	rep.set_rule(
		"two subscriptions A, B and one pending call; server push sequences of length 1..3 (thorough 4) over {notification for A, for B, for an unknown subscription id, close/error notification for A (payload a string; on short sequences also an object, null, a number, a string with escapes), method notification, response to the pending call}, each delivered under every grouping into consecutive messages (single objects / arrays: all 2^(n-1) compositions), × buffer capacity {1,2} (thorough {1,2,3}) × 7 consumer scripts for A over {next, unsubscribe, drop} × numeric/string ids, and for the sequences with two notifications for A (and a stride of the others) once more with the client built through WsClientBuilder with an RPC middleware set as the last resp. first builder call; for every scenario the complete tree of interleavings of deliveries and consumer actions is explored (DFS, no bound). plus: a second subscribe call answered with the id of the live subscription (refused; the live stream keeps yielding exactly its own items; no unsubscribe goes out), all interleavings with three notifications. Oracle: a bounded-queue reference model replayed over the execution's own trace (items, order, end of stream and its reason, number of unsubscribe requests naming A on the wire, the pending call's result).",
	);
	rep.assume("the subscribe acknowledgements of the prelude are delivered without scheduling points; B's consumer is free-running");
	let scen = scenarios(thorough);
	rep.extra("scenarios_total", json!(scen.len()));
	par_for(rep, scen.len(), 8, || (), |i, _, _local| {
		sched::explore_small(&scen[i], rep, 50_000, if thorough { 20 } else { 100 });
	});
	let small: Vec<Value> = Vec::new();
	let _ = small;
	// keep the evidence small: per-scenario entries are summarised
	rep.extra("scenarios", json!("(one entry per scenario omitted: see scenarios_total; every scenario tree was exhausted unless caps_hit says otherwise)"));
	for s in backpressure_scenarios() {
		sched::explore_auto(&s, rep, if thorough { 400_000 } else { 40_000 }, 3, 50, Duration::from_secs(if thorough { 120 } else { 10 }));
	}
	for s in dup_scenarios() {
		sched::explore_auto(&s, rep, 100_000, 3, 20, Duration::from_secs(60));
	}
}

pub fn dyn_scenarios() -> Vec<Box<dyn sched::DynScenario>> {
	let mut v: Vec<Box<dyn sched::DynScenario>> = Vec::new();
	for s in dup_scenarios() {
		v.push(Box::new(s));
	}
	for s in scenarios(true) {
		v.push(Box::new(s));
	}
	for s in scenarios(false) {
		v.push(Box::new(s));
	}
	for s in backpressure_scenarios() {
		v.push(Box::new(s));
	}
	v
}

// ---------------------------------------------------------------------------------------------
// unsubscribe / drop while the client's request queue is full (max_concurrent_requests = 1, send task parked in the transport)

pub struct BackpressureScenario {
	pub act: Act,
	pub calls: usize,
	pub late_push: bool,
}

pub struct BpState {
	shared: Arc<Shared>,
	/// the client must outlive the execution (dropping it shuts the background tasks down)
	_client: Arc<Client>,
	keep: Arc<Mutex<Option<Subscription<Value>>>>,
}

fn mask_bp(l: &str) -> bool {
	!(l.starts_with("server:") || l.starts_with("client:"))
}

impl Scenario for BackpressureScenario {
	type State = BpState;
	fn name(&self) -> String {
		format!("cli_mem/subs-backpressure:{:?}:calls{}:late_push={}", self.act, self.calls, self.late_push)
	}
	fn config(&self) -> Value {
		json!({"action": format!("{:?}", self.act), "concurrent_calls": self.calls, "max_concurrent_requests": 1, "notification_after_action": self.late_push})
	}
	fn mask(&self) -> fn(&str) -> bool {
		mask_bp
	}
	fn setup(&self) -> BpState {
		let shared = Arc::new(Shared { rx_split: false, fail_ping: false, fail_close: false,
			sent: Default::default(),
			send_calls: Default::default(),
			fail_send_at: None,
			wire_notify: Notify::new(),
			rxq: Default::default(),
			rx_notify: Notify::new(),
			tx_closed: Default::default(),
			tx_points: true,
		});
		let client: Client = ClientBuilder::default()
			.request_timeout(Duration::from_secs(3600))
			.max_concurrent_requests(1)
			.max_buffer_capacity_per_subscription(4)
			.build_with_tokio(MockTx(shared.clone()), MockRx(shared.clone()));
		let client = Arc::new(client);
		let keep = Arc::new(Mutex::new(None));
		// responder: answers every request that carries an id (subscribe -> "SA", others -> "ok"), no scheduling points
		{
			let shared = shared.clone();
			tokio::spawn(async move {
				let mut k = 0;
				loop {
					shared.wait_sent(k).await;
					let m: Value = serde_json::from_str(&shared.sent_msg(k).unwrap()).unwrap_or(Value::Null);
					if m.get("id").is_some() && m["method"] != "unsub" {
						let res = if m["method"] == "sub" { json!("SA") } else { json!("ok") };
						shared.push_rx(Ok(ReceivedMessage::Text(json!({"jsonrpc":"2.0","id": m["id"], "result": res}).to_string())));
					}
					k += 1;
				}
			});
		}
		let act = self.act;
		let calls = self.calls;
		let late_push = self.late_push;
		{
			let client = client.clone();
			let shared = shared.clone();
			let keep = keep.clone();
			tokio::spawn(async move {
				let sub: Subscription<Value> = client.subscribe("sub", rpc_params![0], "unsub").await.expect("subscribe");
				sched::log("ready");
				for i in 0..calls {
					let client = client.clone();
					tokio::spawn(async move {
						sched::point(format!("fe:call:{i}")).await;
						let r = client.request::<Value, _>("m", rpc_params![i as u64]).await;
						sched::log(format!("call:{i}:{}", r.is_ok()));
					});
				}
				let shared2 = shared.clone();
				tokio::spawn(async move {
					sched::point(format!("fe:A:{act:?}")).await;
					sched::log(format!("actA:{act:?}"));
					match act {
						Act::Unsub => {
							let _ = sub.unsubscribe().await;
							sched::log("A:unsubscribed");
						}
						Act::Drop => {
							drop(sub);
							sched::log("A:dropped");
						}
						Act::Next => {
							*keep.lock().unwrap() = Some(sub);
						}
					}
					if late_push {
						sched::point("env:late-push").await;
						sched::log("late-push");
						shared2.push_rx(Ok(ReceivedMessage::Text(json!({"jsonrpc":"2.0","method":"n","params":{"subscription":"SA","result":"late"}}).to_string())));
					}
				});
			});
		}
		BpState { shared, _client: client, keep }
	}
	fn judge(&self, st: BpState, trace: &[String], panics: &[String], status: Status) -> Verdict {
		let mut v = Vec::new();
		if status != Status::Quiescent {
			v.push((format!("machinery:{status:?}"), format!("{status:?}")));
		}
		for p in panics {
			v.push(("panic".into(), p.clone()));
		}
		let sent = st.shared.sent.lock().unwrap().clone();
		let unsubs = sent.iter().filter(|m| serde_json::from_str::<Value>(m).map_or(false, |x| x["method"] == "unsub" && x["params"] == json!(["SA"]))).count();
		let acted = trace.iter().any(|l| l.starts_with("actA:"));
		let calls_done = trace.iter().filter(|l| l.starts_with("call:") && l.ends_with("true")).count();
		match self.act {
			Act::Unsub if acted => {
				if unsubs != 1 {
					v.push(("backpressure:unsubscribe:request-count".into(), format!("explicit unsubscribe with a full request queue: {unsubs} unsubscribe request(s) on the wire, expected exactly 1")));
				}
				if !trace.iter().any(|l| l == "A:unsubscribed") {
					v.push(("backpressure:unsubscribe:never-returns".into(), "Subscription::unsubscribe() did not return although the connection is healthy".into()));
				}
			}
			Act::Drop if acted => {
				if unsubs > 1 {
					v.push(("backpressure:drop:more-than-one".into(), format!("{unsubs} unsubscribe requests after a drop")));
				}
				let late = trace.iter().any(|l| l == "late-push");
				if late && unsubs != 1 {
					v.push(("backpressure:drop:not-closed-by-later-notification".into(), format!("the stream was dropped and a further notification for it arrived, but {unsubs} unsubscribe requests were sent")));
				}
			}
			_ => {}
		}
		if calls_done != self.calls {
			v.push(("backpressure:calls".into(), format!("{calls_done} of {} concurrent calls completed", self.calls)));
		}
		let _k = st.keep.lock().unwrap().take();
		Verdict { violations: v, outcome: format!("unsubs={unsubs}|acted={acted}|calls={calls_done}") }
	}
}

pub fn backpressure_scenarios() -> Vec<BackpressureScenario> {
	let mut v = Vec::new();
	for act in [Act::Unsub, Act::Drop] {
		for calls in [2usize, 3] {
			for late_push in [false, true] {
				v.push(BackpressureScenario { act, calls, late_push });
			}
		}
	}
	v
}

// ---------------------------------------------------------------------------------------------
// A subscribe call answered with the id of a subscription that is live on the same connection: the call must be
// refused and the live stream must go on yielding exactly its own notifications.

pub struct DupIdScenario {
	pub id_kind: IdKind,
	pub numeric_sub_ids: bool,
	/// the second caller drops whatever it got at its own scheduling point
	pub drop_second: bool,
}

pub struct DupState {
	shared: Arc<Shared>,
	_client: Arc<Client>,
	_keep: Arc<Mutex<Vec<Subscription<Value>>>>,
}

impl Scenario for DupIdScenario {
	type State = DupState;
	fn name(&self) -> String {
		format!("cli_mem/duplicate-subscription-id:{:?}:{}:{}", self.id_kind, if self.numeric_sub_ids { "num" } else { "str" }, if self.drop_second { "drop-second" } else { "keep-second" })
	}
	fn config(&self) -> Value {
		json!({"id_kind": format!("{:?}", self.id_kind), "numeric_subscription_ids": self.numeric_sub_ids, "second_handle_dropped": self.drop_second})
	}
	fn mask(&self) -> fn(&str) -> bool {
		mask
	}
	fn setup(&self) -> DupState {
		let shared = Arc::new(Shared {
			rx_split: false,
			fail_ping: false,
			fail_close: false,
			sent: Default::default(),
			send_calls: Default::default(),
			fail_send_at: None,
			wire_notify: Notify::new(),
			rxq: Default::default(),
			rx_notify: Notify::new(),
			tx_closed: Default::default(),
			tx_points: false,
		});
		let client: Client = ClientBuilder::default()
			.request_timeout(Duration::from_secs(3600))
			.max_buffer_capacity_per_subscription(8)
			.id_format(self.id_kind)
			.build_with_tokio(MockTx(shared.clone()), MockRx(shared.clone()));
		let client = Arc::new(client);
		let keep: Arc<Mutex<Vec<Subscription<Value>>>> = Arc::new(Mutex::new(Vec::new()));
		let sid = if self.numeric_sub_ids { json!(11) } else { json!("SA") };
		// responder: the first subscribe is acknowledged at once, the second one (same id!) at a scheduling point
		{
			let shared = shared.clone();
			let sid = sid.clone();
			tokio::spawn(async move {
				let mut k = 0;
				loop {
					shared.wait_sent(k).await;
					let m: Value = serde_json::from_str(&shared.sent_msg(k).unwrap()).unwrap_or(Value::Null);
					if m["method"] == "sub" {
						if m["params"] != json!([0]) {
							sched::point("env:answer-second-subscribe-with-live-id").await;
							sched::log("second-subscribe-answered");
						}
						shared.push_rx(Ok(ReceivedMessage::Text(json!({"jsonrpc":"2.0","id": m["id"], "result": sid}).to_string())));
					}
					k += 1;
				}
			});
		}
		{
			let client = client.clone();
			let shared = shared.clone();
			let keep = keep.clone();
			let drop_second = self.drop_second;
			tokio::spawn(async move {
				let mut sub_a: Subscription<Value> = client.subscribe("sub", rpc_params![0], "unsub").await.expect("subscribe A");
				sched::log("ready");
				// consumer A: free running
				tokio::spawn(async move {
					loop {
						match sub_a.next().await {
							Some(v) => sched::log(format!("A:item:{}", v.map(|x| x.to_string()).unwrap_or_else(|e| format!("decode:{e}")))),
							None => {
								sched::log("A:none");
								std::future::pending::<()>().await;
							}
						}
					}
				});
				// the second caller
				{
					let client = client.clone();
					let keep = keep.clone();
					tokio::spawn(async move {
						sched::point("fe:second-subscribe").await;
						match client.subscribe::<Value, _>("sub", rpc_params![1], "unsub").await {
							Ok(mut s) => {
								sched::log("second:ok");
								if drop_second {
									sched::point("fe:second-drop").await;
									sched::log("second:dropped");
									drop(s);
								} else {
									// a consumer that logs what the second handle yields
									tokio::spawn(async move {
										while let Some(v) = s.next().await {
											sched::log(format!("second:item:{}", v.map(|x| x.to_string()).unwrap_or_default()));
										}
										sched::log("second:none");
										std::future::pending::<()>().await;
									});
								}
							}
							Err(e) => sched::log(format!("second:err:{e:?}")),
						}
						let _ = keep;
					});
				}
				// pusher: three notifications for the live id
				for k in 1..=3 {
					sched::point(format!("env:push:{k}")).await;
					sched::log(format!("push:{k}"));
					shared.push_rx(Ok(ReceivedMessage::Text(json!({"jsonrpc":"2.0","method":"n","params":{"subscription": sid, "result": format!("A{k}")}}).to_string())));
				}
			});
		}
		DupState { shared, _client: client, _keep: keep }
	}
	fn judge(&self, st: DupState, trace: &[String], panics: &[String], status: Status) -> Verdict {
		let mut v: Vec<(String, String)> = Vec::new();
		if status != Status::Quiescent {
			v.push((format!("machinery:{status:?}"), format!("{status:?}")));
		}
		for p in panics {
			v.push(("panic".into(), p.clone()));
		}
		let items: Vec<&String> = trace.iter().filter(|l| l.starts_with("A:")).collect();
		let pushes = trace.iter().filter(|l| l.starts_with("push:")).count();
		let expected: Vec<String> = (1..=pushes).map(|k| format!("A:item:\"A{k}\"")).collect();
		if items.iter().map(|s| s.as_str()).collect::<Vec<_>>() != expected.iter().map(|s| s.as_str()).collect::<Vec<_>>() {
			v.push((
				"stream-A:differs:after-duplicate-id".into(),
				format!("the live subscription's stream yielded {items:?} but the server sent {expected:?} for its id (a second subscribe call was answered with the same id)"),
			));
		}
		if trace.iter().any(|l| l == "second:ok") {
			v.push(("duplicate-subscription-id-accepted".into(), "a subscribe call answered with the id of a live subscription returned Ok: two handles now claim one id".into()));
		}
		if let Some(l) = trace.iter().find(|l| l.starts_with("second:item")) {
			v.push(("stream-second:yields-foreign-items".into(), format!("the second handle yielded {l}, a notification of the first subscription")));
		}
		let unsubs = st.shared.sent.lock().unwrap().iter().filter(|m| m.contains("\"unsub\"")).count();
		if unsubs > 0 {
			v.push(("unsubscribe-for-live-subscription".into(), format!("{unsubs} unsubscribe request(s) were sent although the first subscription is alive and was never unsubscribed")));
		}
		let outcome: Vec<&String> = trace.iter().filter(|l| l.starts_with("A:") || l.starts_with("second:")).collect();
		Verdict { violations: v, outcome: format!("{outcome:?}|unsubs={unsubs}") }
	}
}

pub fn dup_scenarios() -> Vec<DupIdScenario> {
	let mut v = Vec::new();
	for id_kind in [IdKind::Number, IdKind::String] {
		for numeric_sub_ids in [false, true] {
			for drop_second in [false, true] {
				v.push(DupIdScenario { id_kind, numeric_sub_ids, drop_second });
			}
		}
	}
	v
}
