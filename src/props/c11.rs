//! C11 — connections never exceed max_connections and slots are reused (SCHED on SRV-MEM ws+http, interval-rule monitor).

use super::c04::{mask_all_server, mask_harness_only};
use crate::report::Reporter;
use crate::sched::{self, Scenario, Status, Verdict};
use crate::smem::{self, Conn, HStep, HttpAct, PeerAct, RawWsAct, SrvCfg, SrvState};
use serde_json::{Value, json};
use std::time::Duration;

pub struct ConnScenario {
	pub name: String,
	pub limit: u32,
	pub conns: Vec<Conn>,
	pub stop: bool,
	pub mask: fn(&str) -> bool,
}

impl Scenario for ConnScenario {
	type State = SrvState;
	fn name(&self) -> String {
		format!("srv_mem/connections:limit{}:{}", self.limit, self.name)
	}
	fn config(&self) -> Value {
		json!({"max_connections": self.limit, "connections": format!("{:?}", self.conns), "stop": self.stop})
	}
	fn mask(&self) -> fn(&str) -> bool {
		self.mask
	}
	fn max_steps(&self) -> usize {
		300
	}
	fn setup(&self) -> SrvState {
		smem::setup(&SrvCfg {
			conns: self.conns.clone(),
			scripts: vec![vec![HStep::Accept]],
			stop: self.stop,
			max_conns: self.limit,
			slow_steps: 1,
			connect_points: true,
			ping_ms: if self.name.starts_with("ws-inactive") { Some(2) } else { None },
			per_conn_http_mw: self.name.contains("http-middleware"),
			tcp: self.name.starts_with("tcp:"),
			low_ws: self.name.starts_with("low-level:"),
			max_req: if self.name.contains("oversized-frame") { 256 } else { 0 },
			restrict_last: if self.name.contains("http-only-last") { Some(false) } else if self.name.contains("ws-only-last") { Some(true) } else { None },
			..Default::default()
		})
	}
	fn needs_io(&self) -> bool {
		self.name.starts_with("tcp:")
	}
	fn tolerate_divergence(&self) -> bool {
		self.name.starts_with("tcp:")
	}
	fn judge(&self, _st: SrvState, trace: &[String], panics: &[String], status: Status) -> Verdict {
		let mut v = monitor(trace, &self.conns, self.limit as i64);
		if status != Status::Quiescent {
			v.push((format!("machinery:{status:?}"), format!("{status:?}")));
		}
		for p in panics {
			v.push(("panic".into(), p.clone()));
		}
		let outcome: Vec<&String> = trace.iter().filter(|l| l.contains(":rx:") || l.contains("handshake-rejected") || l.contains("ws-open") || l.starts_with("slow:")).collect();
		Verdict { violations: v, outcome: format!("{outcome:?}") }
	}
}

#[derive(Debug, Clone)]
struct Attempt {
	conn: usize,
	kind: &'static str,
	/// request on its way (earliest moment a slot may be taken)
	tx: usize,
	/// outcome known to the peer
	rx: Option<usize>,
	refused: bool,
	/// certain occupancy interval [from, to) (None = never certainly in service)
	certain: Option<(usize, usize)>,
	/// possible occupancy interval [from, to]
	possible_to: usize,
	tag: String,
}

pub fn monitor(trace: &[String], conns: &[Conn], limit: i64) -> Vec<(String, String)> {
	let mut v: Vec<(String, String)> = Vec::new();
	let end = trace.len();
	let mut attempts: Vec<Attempt> = Vec::new();
	for (c, conn) in conns.iter().enumerate() {
		match conn {
			Conn::Ws(_) | Conn::WsAbortedUpgrade | Conn::WsRaw(_) => {
				let tx = trace.iter().position(|l| *l == format!("c{c}:handshake-sent") || *l == format!("c{c}:upgrade-request-sent"));
				let Some(tx) = tx else { continue };
				let open = trace.iter().position(|l| *l == format!("c{c}:ws-open"));
				let rejected = trace.iter().position(|l| l.starts_with(&format!("c{c}:handshake-rejected:")));
				let closed = trace.iter().position(|l| *l == format!("c{c}:session-closed"));
				let refused = rejected.is_some();
				if let Some(r) = rejected {
					if !trace[r].ends_with(":429") {
						v.push(("refusal-not-429".into(), format!("connection {c}: WebSocket handshake refused with {}", trace[r])));
					}
				}
				attempts.push(Attempt {
					conn: c,
					kind: "ws",
					tx,
					rx: open.or(rejected),
					refused,
					certain: open.map(|o| (o, closed.unwrap_or(end))),
					possible_to: if refused { rejected.unwrap() } else { closed.unwrap_or(end) },
					tag: "session".into(),
				});
			}
			Conn::Http(_) => {
				// every request on this connection
				for (i, l) in trace.iter().enumerate() {
					let Some(t) = l.strip_prefix(&format!("c{c}:tx:")) else { continue };
					let Ok(m) = serde_json::from_str::<Value>(t) else { continue };
					let id = m["id"].as_str().unwrap_or("").to_string();
					let tagn = id.trim_start_matches('c').to_string();
					let rx = trace.iter().enumerate().skip(i).find(|(_, x)| x.starts_with(&format!("c{c}:rx:")) && x.contains(&format!("\"id\":\"{id}\"")) || x.starts_with(&format!("c{c}:rx:429"))).map(|(k, _)| k);
					let refused = rx.map_or(false, |k| trace[k].starts_with(&format!("c{c}:rx:429")));
					let start = trace.iter().position(|x| x.starts_with(&format!("slow:{c}:{tagn}:start")));
					let finish = trace.iter().position(|x| *x == format!("slow:{c}:{tagn}:finish"));
					let dropped = trace.iter().enumerate().skip(i).find(|(_, x)| **x == format!("c{c}:tx:DROP")).map(|(k, _)| k);
					let is_slow = m["method"] == "slow";
					attempts.push(Attempt {
						conn: c,
						kind: "http",
						tx: i,
						rx,
						refused,
						certain: if is_slow { start.map(|s| (s, finish.or(dropped).unwrap_or(end))) } else { None },
						// a request whose peer dropped the socket stops counting once the server had the chance to notice: the
						// next scheduling decision after the drop is taken at quiescence, i.e. after the server processed the EOF
						possible_to: rx.or(dropped.map(|d| trace.iter().enumerate().skip(d + 1).find(|(_, x)| x.starts_with('>')).map_or(end, |(k, _)| k))).unwrap_or(end),
						tag: tagn,
					});
					if refused && start.is_some() {
						v.push(("handler-ran-for-refused-request".into(), format!("connection {c}: request {id} was answered 429 but its handler started")));
					}
				}
			}
		}
	}
	// every way a WebSocket connection ends must end its session (and with it free its slot) by quiescence
	for (c, conn) in conns.iter().enumerate() {
		if !matches!(conn, Conn::Ws(_) | Conn::WsRaw(_) | Conn::WsAbortedUpgrade) {
			continue;
		}
		let opened = trace.iter().any(|l| *l == format!("c{c}:ws-open") || *l == format!("c{c}:upgrade-request-sent"));
		let how = if trace.iter().any(|l| *l == format!("c{c}:tx:RESERVED-OPCODE")) {
			Some("protocol-violation")
		} else if trace.iter().any(|l| *l == format!("c{c}:tx:DROP")) {
			Some("peer-reset")
		} else if trace.iter().any(|l| *l == format!("c{c}:tx:CLOSE")) {
			Some("close-frame")
		} else if trace.iter().any(|l| *l == format!("c{c}:aborted")) {
			Some("aborted-upgrade")
		} else if trace.iter().any(|l| l.starts_with("stop:called:")) {
			Some("server-stop")
		} else {
			None
		};
		if let (true, Some(how)) = (opened, how) {
			if !trace.iter().any(|l| *l == format!("c{c}:session-closed")) {
				v.push((format!("session-never-ends:{how}"), format!("connection {c}: the WebSocket session ended by {how} but the server never finished it (its connection slot is never freed)")));
			}
		}
	}
	// invariant: certainly-in-service never exceeds the limit
	let mut events: Vec<(usize, i64)> = Vec::new();
	for a in &attempts {
		if let Some((f, t)) = a.certain {
			events.push((f, 1));
			events.push((t, -1));
		}
	}
	events.sort_by(|a, b| a.0.cmp(&b.0).then(a.1.cmp(&b.1)));
	let mut cur = 0i64;
	for (p, d) in &events {
		cur += d;
		if cur > limit {
			v.push(("limit-exceeded".into(), format!("{cur} connections are being served at trace position {p} (open WebSocket sessions + HTTP requests inside their handler), max_connections = {limit}")));
			break;
		}
	}
	// cross-check with what a running call sees in its request extensions
	for (i, l) in trace.iter().enumerate() {
		if let Some(rest) = l.strip_prefix("slow:") {
			if let Some(av) = rest.split("avail=Some(").nth(1).and_then(|x| x.trim_end_matches(')').parse::<i64>().ok()) {
				let certain_now = attempts.iter().filter(|a| a.certain.map_or(false, |(f, t)| f <= i && i < t)).count() as i64;
				if limit - av < certain_now {
					v.push(("guard-undercounts".into(), format!("{l}: the connection guard reports {av} free slots of {limit} while {certain_now} connections are certainly being served")));
				}
			}
		}
	}
	// every refusal must be justified: at some moment of the attempt the server may have been full
	for a in attempts.iter().filter(|a| a.refused) {
		let to = a.rx.unwrap_or(end);
		let mut justified = limit == 0;
		for p in a.tx..=to.min(end.saturating_sub(1)) {
			let others = attempts.iter().filter(|b| !(b.conn == a.conn && b.tx == a.tx) && !b.refused && b.tx <= p && p <= b.possible_to).count() as i64;
			if others >= limit {
				justified = true;
				break;
			}
		}
		if !justified {
			// which exit paths precede the refusal: distinguishing feature for the signature
			let mut paths: Vec<&str> = Vec::new();
			for (c, conn) in conns.iter().enumerate() {
				if c == a.conn {
					continue;
				}
				let ended_before = trace[..a.tx].iter().any(|l| *l == format!("c{c}:session-closed") || *l == format!("c{c}:tx:DROP") || *l == format!("c{c}:aborted"));
				if !ended_before {
					continue;
				}
				let p = match conn {
					Conn::WsAbortedUpgrade => "aborted-upgrade",
					Conn::WsRaw(_) => "ws-protocol-error",
					Conn::Ws(s) if s.contains(&PeerAct::Drop) => "ws-peer-reset",
					Conn::Ws(s) if s.contains(&PeerAct::CloseFrame) => "ws-close",
					Conn::Ws(_) => "ws-server-side-close",
					Conn::Http(s) if s.contains(&HttpAct::CallThenDrop) => "http-aborted",
					Conn::Http(_) => "http-completed",
				};
				if !paths.contains(&p) {
					paths.push(p);
				}
			}
			v.push((
				format!("refused-although-slot-free:after-{}", if paths.is_empty() { "nothing".to_string() } else { paths.join("+") }),
				format!("connection {} ({}, {}) was refused with 429 although fewer than {limit} connections could have been in service at any moment of the attempt (a finished connection did not free its slot?)", a.conn, a.kind, a.tag),
			));
		}
	}
	v
}

pub fn scenarios(thorough: bool) -> Vec<ConnScenario> {
	let ws = |a: Vec<PeerAct>| Conn::Ws(a);
	let http = |a: Vec<HttpAct>| Conn::Http(a);
	let mut v = Vec::new();
	let mut add = |name: &str, limit: u32, conns: Vec<Conn>, stop: bool, mask: fn(&str) -> bool| v.push(ConnScenario { name: name.to_string(), limit, conns, stop, mask });
	for limit in 0..=2u32 {
		// limit+1 HTTP requests being processed at once, then probes after they finished
		let mut conns: Vec<Conn> = (0..=limit).map(|_| http(vec![HttpAct::SlowCall, HttpAct::Call])).collect();
		conns.push(http(vec![HttpAct::Call]));
		add("http-only", limit, conns, false, mask_harness_only);
		// WebSocket sessions: open limit+1, close from the peer, probe
		let mut conns: Vec<Conn> = (0..=limit).map(|_| ws(vec![PeerAct::Call, PeerAct::CloseFrame])).collect();
		conns.push(ws(vec![PeerAct::Call]));
		add("ws-close-frame", limit, conns, false, mask_harness_only);
		let mut conns: Vec<Conn> = (0..=limit).map(|_| ws(vec![PeerAct::SlowCall, PeerAct::Drop])).collect();
		conns.push(ws(vec![PeerAct::Call]));
		conns.push(http(vec![HttpAct::Call]));
		add("ws-reset-mid-call", limit, conns, false, mask_harness_only);
	}
	// the low-level assembly (an application's own service calling ws::connect / http::call_with_service_builder with a
	// ConnectionState that carries the permit)
	add("low-level:http-only", 1, vec![http(vec![HttpAct::SlowCall, HttpAct::Call]), http(vec![HttpAct::SlowCall]), http(vec![HttpAct::Call])], false, mask_harness_only);
	add("low-level:mixed", 1, vec![ws(vec![PeerAct::SlowCall, PeerAct::CloseFrame]), http(vec![HttpAct::SlowCall]), http(vec![HttpAct::Call])], false, mask_harness_only);
	add("low-level:http-aborted-mid-call", 1, vec![http(vec![HttpAct::CallThenDrop]), http(vec![HttpAct::Call]), http(vec![HttpAct::SlowCall])], false, mask_harness_only);
	// a frame above max_request_body_size neither ends the session nor frees its slot
	add("ws-oversized-frame", 1, vec![ws(vec![PeerAct::Oversized(300), PeerAct::SlowCall, PeerAct::CloseFrame]), ws(vec![PeerAct::Call]), http(vec![HttpAct::Call])], false, mask_harness_only);
	// exit paths, limit 1: after each path a fresh connection must be admitted
	add("aborted-upgrade", 1, vec![Conn::WsAbortedUpgrade, ws(vec![PeerAct::Call]), http(vec![HttpAct::Call])], false, mask_harness_only);
	add("http-aborted-mid-call", 1, vec![http(vec![HttpAct::CallThenDrop]), http(vec![HttpAct::Call]), ws(vec![PeerAct::Call, PeerAct::CloseFrame])], false, mask_harness_only);
	add("ws-with-subscription-reset", 1, vec![ws(vec![PeerAct::Subscribe(0), PeerAct::Drop]), ws(vec![PeerAct::Call, PeerAct::CloseFrame]), http(vec![HttpAct::Call])], false, mask_harness_only);
	add("ws-protocol-violation", 1, vec![Conn::WsRaw(vec![RawWsAct::Call, RawWsAct::ReservedOpcode]), ws(vec![PeerAct::Call, PeerAct::CloseFrame]), http(vec![HttpAct::Call])], false, mask_harness_only);
	add("ws-protocol-violation-idle", 1, vec![Conn::WsRaw(vec![RawWsAct::ReservedOpcode]), Conn::WsRaw(vec![RawWsAct::Call])], false, mask_harness_only);
	// the configuration assembled with max_connections first and the transport restriction as the last builder call
	add("http-only-last", 1, vec![http(vec![HttpAct::SlowCall, HttpAct::Call]), http(vec![HttpAct::Call]), http(vec![HttpAct::Call])], false, mask_harness_only);
	add("ws-only-last", 1, vec![ws(vec![PeerAct::SlowCall]), ws(vec![PeerAct::Call]), ws(vec![PeerAct::Call, PeerAct::CloseFrame])], false, mask_harness_only);
	// Server::start over loopback TCP (HTTP only: hyper's own connection handling is in the loop): a request aborted
	// mid-call gives its slot back
	add("tcp:http-aborted-mid-call", 1, vec![http(vec![HttpAct::CallThenDrop]), http(vec![HttpAct::Call]), http(vec![HttpAct::Call])], false, mask_harness_only);
	add("tcp:http-only", 1, vec![http(vec![HttpAct::SlowCall, HttpAct::Call]), http(vec![HttpAct::Call])], false, mask_harness_only);
	// per-connection HTTP middleware set on a clone of the shared builder: the limit still spans all connections
	add("http-middleware-per-connection:ws", 1, vec![ws(vec![PeerAct::SlowCall]), ws(vec![PeerAct::Call]), http(vec![HttpAct::Call])], false, mask_harness_only);
	add("http-middleware-per-connection:http", 1, vec![http(vec![HttpAct::SlowCall, HttpAct::Call]), http(vec![HttpAct::Call]), ws(vec![PeerAct::Call, PeerAct::CloseFrame])], false, mask_harness_only);
	add("http-middleware-per-connection:limit0", 0, vec![ws(vec![PeerAct::Call]), http(vec![HttpAct::Call])], false, mask_harness_only);
	// server-side close for ping/pong inactivity (the raw peer never answers pings), idle and with a call in flight
	add("ws-inactive-idle", 1, vec![Conn::WsRaw(vec![RawWsAct::Idle]), http(vec![HttpAct::Call]), ws(vec![PeerAct::Call, PeerAct::CloseFrame])], false, mask_harness_only);
	add("ws-inactive-call-in-flight", 1, vec![Conn::WsRaw(vec![RawWsAct::SlowCall]), http(vec![HttpAct::Call]), http(vec![HttpAct::Call])], false, mask_harness_only);
	add("mixed-limit2", 2, vec![ws(vec![PeerAct::Call, PeerAct::CloseFrame]), http(vec![HttpAct::SlowCall]), http(vec![HttpAct::Call]), ws(vec![PeerAct::Call])], false, mask_harness_only);
	add("server-stop-then-probe", 1, vec![ws(vec![PeerAct::SlowCall]), http(vec![HttpAct::Call])], true, mask_harness_only);
	add("ws-close-server-points", 1, vec![ws(vec![PeerAct::Call, PeerAct::CloseFrame]), ws(vec![PeerAct::Call])], false, mask_all_server);
	add("ws-reset-server-points", 1, vec![ws(vec![PeerAct::SlowCall, PeerAct::Drop]), ws(vec![PeerAct::Call])], false, mask_all_server);
	if thorough {
		add("limit3-mixed", 3, vec![ws(vec![PeerAct::Call, PeerAct::CloseFrame]), ws(vec![PeerAct::SlowCall, PeerAct::Drop]), http(vec![HttpAct::SlowCall]), http(vec![HttpAct::CallThenDrop]), ws(vec![PeerAct::Call])], false, mask_harness_only);
		add("stop-during-slow-call-server-points", 1, vec![ws(vec![PeerAct::SlowCall]), ws(vec![PeerAct::Call])], true, mask_all_server);
	}
	v
}

pub fn check(rep: &Reporter) {
	let thorough = rep.tier.thorough();
	rep.set_rule(
		"max_connections ∈ {0,1,2} (thorough 3); limit+1…limit+3 connections sharing one TowerServiceBuilder (one ConnectionGuard): HTTP requests whose handler parks ('being processed'), keep-alive follow-ups, WebSocket sessions closed by a close frame, reset mid-call, sent a frame above max_request_body_size, with an open subscription, an upgrade whose response is never read, an HTTP request aborted mid-call, a protocol violation, a server-side close for ping inactivity (idle and with a call in flight), server stop; the moment each peer connects and every later action are scheduling points, so every order of opens/closes/aborts is explored (whole tree or ≤K deviations); per scenario also the cfg points in the server's WebSocket tasks. Monitor: the number of connections certainly in service never exceeds the limit and agrees with ConnectionGuard::available_connections() read from the request extensions; every 429 is justified by a possibly-full server at some moment of the attempt (interval rule), so a slot that is not freed by some exit path shows as an unjustified refusal; no handler runs for a refused request.",
	);
	rep.assume("a WebSocket session is in service from its handshake until on_session_closed() (also after a protocol violation by a hand-written peer that keeps its socket open); an HTTP request from being sent until its response is read (possible) / while its handler runs (certain)");
	for s in scenarios(thorough) {
		sched::explore_auto(&s, rep, if thorough { 400_000 } else { 12_000 }, if thorough { 3 } else { 2 }, if thorough { 10 } else { 50 }, Duration::from_secs(if thorough { 300 } else { 5 }));
	}
}

pub fn dyn_scenarios() -> Vec<Box<dyn sched::DynScenario>> {
	let mut v: Vec<Box<dyn sched::DynScenario>> = Vec::new();
	for s in scenarios(true) {
		v.push(Box::new(s));
	}
	v
}
