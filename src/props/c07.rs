//! C07 — requests above max_request_body_size are never processed, on any path (ENUM over a limit/size grid).

use crate::par::par_for;
use crate::report::{Local, Reporter};
use crate::srv::{self, FramesBody};
use jsonrpsee_core::middleware::{Batch, Notification, RpcServiceBuilder, RpcServiceT};
use jsonrpsee_core::server::MethodResponse;
use jsonrpsee_server::{BatchRequestConfig, ConnectionGuard, ConnectionState, HttpRequest, ServerConfig, stop_channel};
use jsonrpsee_types::Request;
use serde_json::{Value, json};
use crate::sched::{self, Scenario, Status, Verdict};
use crate::smem::{self, Conn, PeerAct, SrvCfg, SrvState};
use std::sync::{Arc, Mutex};
use std::time::Duration;

const SENTINEL: &str = r#"{"jsonrpc":"2.0","id":"S","method":"add","params":[20,22]}"#;

const GRID: [(u32, u32); 8] = [(64, 4096), (4096, 64), (100, 100), (1000, 40), (70, 1000), (65536, 128), (127, 127), (300, 36)];

#[derive(Clone, Copy, Debug, PartialEq)]
enum Pad {
	/// whitespace between the tokens of the params array
	Inner,
	/// inside a third (ignored) string parameter
	StringParam,
	/// leading whitespace (≤127) and the rest inner
	Leading,
}
const PADS: [Pad; 3] = [Pad::Inner, Pad::StringParam, Pad::Leading];

/// a valid `add` call of exactly `n` bytes (None if n is too small)
fn message(n: usize, pad: Pad) -> Option<Vec<u8>> {
	let head = r#"{"jsonrpc":"2.0","id":1,"method":"add","params":[1,"#;
	let tail = "2]}";
	let base = head.len() + tail.len();
	match pad {
		Pad::Inner => {
			if n < base {
				return None;
			}
			Some(format!("{head}{}{tail}", " ".repeat(n - base)).into_bytes())
		}
		Pad::StringParam => {
			let tail2 = r#"2,""#;
			let end = r#""]}"#;
			let b2 = head.len() + tail2.len() + end.len();
			if n < b2 {
				return None;
			}
			Some(format!("{head}{tail2}{}{end}", "a".repeat(n - b2)).into_bytes())
		}
		Pad::Leading => {
			if n < base + 1 {
				return None;
			}
			let lead = (n - base).min(127);
			Some(format!("{}{head}{}{tail}", "\n".repeat(lead), " ".repeat(n - base - lead)).into_bytes())
		}
	}
}

#[derive(Clone, Copy, Debug, PartialEq)]
enum HttpVariant {
	/// one frame, exact Content-Length
	OneFrameCl,
	/// one frame, no Content-Length
	OneFrameNoCl,
	/// three frames, no Content-Length
	ThreeFrames,
	/// many frames of ≤ 16 bytes, no Content-Length
	SmallFrames,
	/// three frames, exact Content-Length
	ThreeFramesCl,
	/// Content-Length smaller than the body (header lies)
	LyingSmallCl,
}
const HTTP_VARIANTS: [HttpVariant; 6] =
	[HttpVariant::OneFrameCl, HttpVariant::OneFrameNoCl, HttpVariant::ThreeFrames, HttpVariant::SmallFrames, HttpVariant::ThreeFramesCl, HttpVariant::LyingSmallCl];

fn http_req(msg: &[u8], v: HttpVariant) -> HttpRequest<FramesBody> {
	let n = msg.len();
	let three = || vec![msg[..n / 3].to_vec(), msg[n / 3..2 * n / 3].to_vec(), msg[2 * n / 3..].to_vec()];
	match v {
		HttpVariant::OneFrameCl => srv::post(vec![msg.to_vec()], Some(n.to_string())),
		HttpVariant::OneFrameNoCl => srv::post(vec![msg.to_vec()], None),
		HttpVariant::ThreeFrames => srv::post(three(), None),
		HttpVariant::SmallFrames => srv::post(msg.chunks(16).map(|c| c.to_vec()).collect(), None),
		HttpVariant::ThreeFramesCl => srv::post(three(), Some(n.to_string())),
		HttpVariant::LyingSmallCl => srv::post(three(), Some("10".to_string())),
	}
}

#[derive(Clone, Copy, Debug, PartialEq)]
enum Entry {
	TowerHttp,
	TowerWs,
	LowHttpBuilder,
	LowHttpService,
	LowWsConnect,
	/// the default server (`Server::start`, accept loop) over loopback TCP, raw HTTP/1.1 peer
	ServerTcpHttp,
	/// the default server over loopback TCP, soketto peer
	ServerTcpWs,
	/// like TowerHttp / TowerWs, but the configuration is assembled in another order: limits first, then the
	/// transport restriction (`http_only()` / `ws_only()`) as the last builder call
	TowerHttpOnly,
	TowerWsOnly,
	/// the default server over loopback TCP, HTTP/2 with prior knowledge (hyper's h2 client): no request line, no
	/// chunked framing, the body arrives as DATA frames with or without a content-length header
	ServerTcpH2,
}
const ENTRIES: [Entry; 10] = [
	Entry::TowerHttp,
	Entry::TowerWs,
	Entry::LowHttpBuilder,
	Entry::LowHttpService,
	Entry::LowWsConnect,
	Entry::ServerTcpHttp,
	Entry::ServerTcpWs,
	Entry::TowerHttpOnly,
	Entry::TowerWsOnly,
	Entry::ServerTcpH2,
];

fn cfg_restricted(req: u32, resp: u32, ws: bool) -> ServerConfig {
	let b = srv::cfg_builder().max_request_body_size(req).max_response_body_size(resp);
	if ws { b.ws_only().build() } else { b.http_only().build() }
}

/// a minimal RpcServiceT for `http::call_with_service`
#[derive(Clone)]
struct CountingRpc(srv::InvLog);
impl RpcServiceT for CountingRpc {
	type MethodResponse = MethodResponse;
	type NotificationResponse = MethodResponse;
	type BatchResponse = MethodResponse;
	fn call<'a>(&self, req: Request<'a>) -> impl Future<Output = Self::MethodResponse> + Send + 'a {
		self.0.lock().unwrap().push(req.method.to_string());
		let id = req.id.clone();
		async move { MethodResponse::response(id, jsonrpsee_core::server::ResponsePayload::success(3u64), usize::MAX) }
	}
	fn batch<'a>(&self, _b: Batch<'a>) -> impl Future<Output = Self::BatchResponse> + Send + 'a {
		self.0.lock().unwrap().push("batch".into());
		async move { MethodResponse::notification() }
	}
	fn notification<'a>(&self, _n: Notification<'a>) -> impl Future<Output = Self::NotificationResponse> + Send + 'a {
		async move { MethodResponse::notification() }
	}
}

fn cfg(req: u32, resp: u32) -> ServerConfig {
	srv::cfg_builder().max_request_body_size(req).max_response_body_size(resp).build()
}

/// outcome of one case, normalised
#[derive(Debug, Clone, PartialEq)]
struct Outcome {
	handler_runs: usize,
	/// "result" | "err<code>" | "status<code>" | "none"
	reply: String,
	keeps_serving: bool,
}

async fn run_http(entry: Entry, req_limit: u32, resp_limit: u32, msg: &[u8], v: HttpVariant) -> Result<Outcome, String> {
	let log: srv::InvLog = Arc::new(Mutex::new(Vec::new()));
	let request = http_req(msg, v);
	let out = match entry {
		Entry::TowerHttp | Entry::TowerHttpOnly => {
			let (stop, _handle) = stop_channel();
			let c = if entry == Entry::TowerHttpOnly { cfg_restricted(req_limit, resp_limit, false) } else { cfg(req_limit, resp_limit) };
			let mut svc = jsonrpsee_server::Server::builder().set_config(c).to_service_builder().build(srv::std_module(log.clone()), stop);
			srv::http_call(&mut svc, request).await?
		}
		Entry::LowHttpBuilder => {
			let (stop, _handle) = stop_channel();
			let guard = ConnectionGuard::new(4);
			let conn = ConnectionState::new(stop, 0, guard.try_acquire().unwrap());
			let resp = jsonrpsee_server::http::call_with_service_builder(request, cfg(req_limit, resp_limit), conn, srv::std_module(log.clone()), RpcServiceBuilder::new()).await;
			to_out(resp).await?
		}
		Entry::LowHttpService => {
			let resp = jsonrpsee_server::http::call_with_service(request, BatchRequestConfig::Unlimited, req_limit, CountingRpc(log.clone())).await;
			to_out(resp).await?
		}
		Entry::ServerTcpHttp => tcp_http(req_limit, resp_limit, msg, v, log.clone()).await?,
		Entry::ServerTcpH2 => tcp_h2(req_limit, resp_limit, msg, v, log.clone()).await?,
		_ => unreachable!(),
	};
	let runs = log.lock().unwrap().len();
	let reply = if out.status != 200 {
		format!("status{}", out.status)
	} else {
		match serde_json::from_slice::<Value>(&out.body) {
			Ok(v) if v.get("result").is_some() => "result".into(),
			Ok(v) => format!("err{}", v["error"]["code"]),
			Err(_) => "none".into(),
		}
	};
	Ok(Outcome { handler_runs: runs, reply, keeps_serving: true })
}

fn start_tcp_server(req_limit: u32, resp_limit: u32, log: srv::InvLog) -> Result<(std::net::SocketAddr, jsonrpsee_server::ServerHandle), String> {
	let listener = std::net::TcpListener::bind("127.0.0.1:0").map_err(|e| e.to_string())?;
	listener.set_nonblocking(true).map_err(|e| e.to_string())?;
	let addr = listener.local_addr().map_err(|e| e.to_string())?;
	let server = jsonrpsee_server::Server::builder().set_config(cfg(req_limit, resp_limit)).build_from_tcp(listener).map_err(|e| e.to_string())?;
	Ok((addr, server.start(srv::std_module(log))))
}

/// raw HTTP/1.1 over loopback against `Server::start`: Content-Length framing or chunked transfer encoding
async fn tcp_http(req_limit: u32, resp_limit: u32, msg: &[u8], v: HttpVariant, log: srv::InvLog) -> Result<srv::HttpOut, String> {
	use tokio::io::{AsyncReadExt, AsyncWriteExt};
	let (addr, handle) = start_tcp_server(req_limit, resp_limit, log)?;
	let mut io = tokio::net::TcpStream::connect(addr).await.map_err(|e| e.to_string())?;
	let mut req = Vec::new();
	let head = "POST / HTTP/1.1\r\nhost: localhost\r\ncontent-type: application/json\r\nconnection: close\r\n";
	let n = msg.len();
	match v {
		HttpVariant::OneFrameCl | HttpVariant::ThreeFramesCl => {
			req.extend_from_slice(format!("{head}content-length: {n}\r\n\r\n").as_bytes());
			req.extend_from_slice(msg);
		}
		_ => {
			// no usable Content-Length: chunked transfer encoding
			req.extend_from_slice(format!("{head}transfer-encoding: chunked\r\n\r\n").as_bytes());
			let chunks: Vec<&[u8]> = match v {
				HttpVariant::OneFrameNoCl => vec![msg],
				HttpVariant::SmallFrames => msg.chunks(16).collect(),
				_ => vec![&msg[..n / 3], &msg[n / 3..2 * n / 3], &msg[2 * n / 3..]],
			};
			for c in chunks {
				if c.is_empty() {
					continue;
				}
				req.extend_from_slice(format!("{:x}\r\n", c.len()).as_bytes());
				req.extend_from_slice(c);
				req.extend_from_slice(b"\r\n");
			}
			req.extend_from_slice(b"0\r\n\r\n");
		}
	}
	// the server may answer (413) and close before the whole body is written: ignore write errors
	let _ = io.write_all(&req).await;
	let mut buf = Vec::new();
	let _ = tokio::time::timeout(std::time::Duration::from_secs(10), io.read_to_end(&mut buf)).await;
	let _ = handle.stop();
	let text = String::from_utf8_lossy(&buf).to_string();
	let status: u16 = text.split_whitespace().nth(1).and_then(|x| x.parse().ok()).ok_or_else(|| format!("no HTTP status in {text:?}"))?;
	let body = text.split("\r\n\r\n").nth(1).unwrap_or("").to_string();
	// de-chunk a chunked response body if needed: take the JSON object inside
	let body = match (body.find('{'), body.rfind('}')) {
		(Some(a), Some(b)) if b >= a => body[a..=b].to_string(),
		_ => body,
	};
	Ok(srv::HttpOut { status, content_type: None, body: body.into_bytes() })
}

/// HTTP/2 over loopback against `Server::start`: one connection, one stream
async fn tcp_h2(req_limit: u32, resp_limit: u32, msg: &[u8], v: HttpVariant, log: srv::InvLog) -> Result<srv::HttpOut, String> {
	let (addr, handle) = start_tcp_server(req_limit, resp_limit, log)?;
	let n = msg.len();
	let three = || vec![msg[..n / 3].to_vec(), msg[n / 3..2 * n / 3].to_vec(), msg[2 * n / 3..].to_vec()];
	let (body, cl) = match v {
		HttpVariant::OneFrameCl => (FramesBody::new(vec![msg.to_vec()]), true),
		HttpVariant::ThreeFramesCl => (FramesBody::new(three()), true),
		HttpVariant::OneFrameNoCl => (FramesBody::unsized_frames(vec![msg.to_vec()]), false),
		HttpVariant::ThreeFrames => (FramesBody::unsized_frames(three()), false),
		// at most 64 DATA frames: with thousands of 16-byte frames behind the server's early refusal the hyper client reports
		// BrokenPipe before it has read the answer (presumably the h2 layer's protection against frames on a reset stream)
		HttpVariant::SmallFrames => (FramesBody::unsized_frames(msg.chunks(16.max(n / 64)).map(|c| c.to_vec()).collect()), false),
		HttpVariant::LyingSmallCl => return Err("not expressible over HTTP/2".into()),
	};
	let mut b = http::Request::builder().method("POST").uri(format!("http://{addr}/")).header("content-type", "application/json");
	if cl {
		b = b.header("content-length", n.to_string());
	}
	let req = b.body(body).map_err(|e| e.to_string())?;
	let res = async {
		let mut conn = srv::h2_connect(addr).await?;
		tokio::time::timeout(std::time::Duration::from_secs(10), conn.request(req)).await.map_err(|_| "hang: no HTTP/2 response within 10 s".to_string())?
	}
	.await;
	let _ = handle.stop();
	res
}

async fn tcp_ws(req_limit: u32, resp_limit: u32, msg: &[u8], log: srv::InvLog) -> Result<Outcome, String> {
	use tokio_util::compat::TokioAsyncReadCompatExt;
	let (addr, handle) = start_tcp_server(req_limit, resp_limit, log.clone())?;
	let io = tokio::net::TcpStream::connect(addr).await.map_err(|e| e.to_string())?;
	let mut client = soketto::handshake::Client::new(io.compat(), "localhost", "/");
	match client.handshake().await.map_err(|e| format!("handshake: {e}"))? {
		soketto::handshake::ServerResponse::Accepted { .. } => {}
		other => return Err(format!("handshake refused: {other:?}")),
	}
	let mut b = client.into_builder();
	b.set_max_message_size(64 << 20);
	let (mut sender, mut receiver) = b.finish();
	sender.send_text(std::str::from_utf8(msg).unwrap()).await.map_err(|e| e.to_string())?;
	sender.send_text(SENTINEL).await.map_err(|e| e.to_string())?;
	sender.flush().await.map_err(|e| e.to_string())?;
	let mut replies: Vec<Value> = Vec::new();
	let mut sentinel = false;
	let mut buf = Vec::new();
	loop {
		buf.clear();
		let r = tokio::time::timeout(std::time::Duration::from_secs(10), receiver.receive_data(&mut buf)).await;
		match r {
			Err(_) => return Err(format!("hang: no frame within 10 s after replies {replies:?}")),
			Ok(Err(_)) => break,
			Ok(Ok(_)) => {
				let v: Value = serde_json::from_slice(&buf).map_err(|e| format!("reply not JSON: {e}"))?;
				if v["id"] == "S" {
					sentinel = v["result"] == 42 || v["error"]["code"] == -32008;
					let _ = handle.stop();
				} else {
					replies.push(v);
				}
			}
		}
	}
	let _ = handle.stop();
	let runs = log.lock().unwrap().iter().filter(|h| *h == "add").count().saturating_sub(sentinel as usize);
	let reply = match replies.as_slice() {
		[] => "none".to_string(),
		[v] if v.get("result").is_some() => "result".into(),
		[v] => format!("err{}", v["error"]["code"]),
		more => format!("{}-replies", more.len()),
	};
	Ok(Outcome { handler_runs: runs, reply, keeps_serving: sentinel })
}

async fn to_out(resp: jsonrpsee_server::HttpResponse) -> Result<srv::HttpOut, String> {
	use http_body_util::BodyExt;
	let status = resp.status().as_u16();
	let body = resp.into_body().collect().await.map_err(|e| format!("{e:?}"))?.to_bytes().to_vec();
	Ok(srv::HttpOut { status, content_type: None, body })
}

async fn run_ws(entry: Entry, req_limit: u32, resp_limit: u32, msg: &[u8]) -> Result<Outcome, String> {
	let log: srv::InvLog = Arc::new(Mutex::new(Vec::new()));
	if entry == Entry::ServerTcpWs {
		return tcp_ws(req_limit, resp_limit, msg, log).await;
	}
	let (stop, handle) = stop_channel();
	let mut conn = match entry {
		Entry::TowerWs | Entry::TowerWsOnly => {
			let c = if entry == Entry::TowerWsOnly { cfg_restricted(req_limit, resp_limit, true) } else { cfg(req_limit, resp_limit) };
			let svc = jsonrpsee_server::Server::builder().set_config(c).to_service_builder().build(srv::std_module(log.clone()), stop.clone());
			srv::ws_connect(svc, stop.clone()).await?
		}
		Entry::LowWsConnect => {
			let methods = srv::std_module(log.clone());
			let server_cfg = cfg(req_limit, resp_limit);
			let guard = ConnectionGuard::new(4);
			let stop2 = stop.clone();
			let svc = tower::service_fn(move |req: http::Request<hyper::body::Incoming>| {
				let methods = methods.clone();
				let server_cfg = server_cfg.clone();
				let conn = ConnectionState::new(stop2.clone(), 0, guard.try_acquire().unwrap());
				async move {
					match jsonrpsee_server::ws::connect(req, server_cfg, methods, conn, RpcServiceBuilder::new()).await {
						Ok((rp, conn_fut)) => {
							tokio::spawn(conn_fut);
							Ok::<_, std::convert::Infallible>(rp)
						}
						Err(rp) => Ok(rp),
					}
				}
			});
			srv::ws_connect(svc, stop.clone()).await?
		}
		_ => unreachable!(),
	};
	conn.send(msg).await?;
	// a sentinel short enough for every request limit of the grid; its reply may itself be replaced by -32008
	conn.send(SENTINEL.as_bytes()).await?;
	let mut replies: Vec<Value> = Vec::new();
	let mut sentinel = false;
	let mut stopped = false;
	loop {
		let f = match tokio::time::timeout(std::time::Duration::from_secs(10), conn.recv()).await {
			Err(_) => return Err(format!("hang: no frame within 10 s after replies {replies:?}")),
			Ok(None) => break,
			Ok(Some(f)) => f,
		};
		let v: Value = serde_json::from_slice(&f).map_err(|e| format!("reply not JSON: {e}"))?;
		if v["id"] == "S" {
			sentinel = v["result"] == 42 || v["error"]["code"] == -32008;
			if !stopped {
				stopped = true;
				let _ = handle.stop();
			}
		} else {
			replies.push(v);
		}
	}
	if !stopped {
		let _ = handle.stop();
	}
	let _ = tokio::time::timeout(std::time::Duration::from_secs(20), conn.serve).await;
	let runs = log.lock().unwrap().iter().filter(|h| *h == "add").count().saturating_sub(sentinel as usize);
	let reply = match replies.as_slice() {
		[] => "none".to_string(),
		[v] if v.get("result").is_some() => "result".into(),
		[v] => format!("err{}", v["error"]["code"]),
		more => format!("{}-replies", more.len()),
	};
	Ok(Outcome { handler_runs: runs, reply, keeps_serving: sentinel })
}

pub fn check(rep: &Reporter) {
	rep.set_rule(
		"(max_request, max_response) over 8 pairs incl. unequal ones (thorough: + every request limit 60..140 against response limits 36 and 100000, + 3 large pairs) × message size ∈ {limit−2 … limit+2, 2·limit, 10·limit, limit·3/2} (thorough: also ±3, +7, 3·limit, +127, +128) × 3 padding styles (inner whitespace, ignored string param, ≤127 leading whitespace) × entry point {TowerService over HTTP, TowerService over WebSocket, the same two with the configuration assembled limits-first and http_only()/ws_only() last, http::call_with_service_builder, http::call_with_service, ws::connect, Server::start over loopback TCP with a raw HTTP/1.1 peer (Content-Length or chunked), Server::start over loopback TCP with a WebSocket peer, Server::start over loopback TCP with an HTTP/2 (prior knowledge) client: DATA frames with or without content-length} × HTTP body variants {1 frame+CL, 1 frame no CL, 3 frames, many 16-byte frames, 3 frames+CL, lying small CL}; the message is always a valid `add` call, so 'processed' = handler ran once and the sum came back. Distinct by the whole tuple; every case non-trivial.",
	);
	rep.assume("WebSocket messages are sent as one unfragmented frame");
	let thorough = rep.tier.thorough();
	let mut grid: Vec<(u32, u32)> = GRID.to_vec();
	if thorough {
		// every request limit 60..=140 against two very different response limits, and a few large ones
		for rq in 60..=140u32 {
			grid.push((rq, 36));
			grid.push((rq, 100_000));
		}
		grid.extend([(8192, 50), (50_000, 3000), (1 << 20, 64)]);
	}
	let grid = grid;
	let mut cases = Vec::new();
	for (gi, (rq, _)) in grid.iter().enumerate() {
		let l = *rq as usize;
		let mut sizes = vec![l - 2, l - 1, l, l + 1, l + 2, 2 * l, l * 3 / 2];
		if thorough {
			sizes.extend([l - 3, l + 3, l + 7, 3 * l, l + 127, l + 128]);
		}
		if l <= 4096 {
			sizes.push(10 * l);
		}
		for n in sizes {
			for pad in PADS {
				for e in ENTRIES {
					// the loopback-TCP entry points open real sockets (ephemeral ports, TIME_WAIT): base grid only
					if matches!(e, Entry::ServerTcpHttp | Entry::ServerTcpWs) && gi >= GRID.len() {
						continue;
					}
					match e {
						Entry::TowerWs | Entry::LowWsConnect | Entry::ServerTcpWs | Entry::TowerWsOnly => cases.push((gi, n, pad, e, HttpVariant::OneFrameCl)),
						Entry::ServerTcpHttp | Entry::ServerTcpH2 => {
							// a lying Content-Length is not expressible over a real HTTP/1.1 connection (hyper frames the body by it),
							// and HTTP/2 treats it as a malformed request
							for v in HTTP_VARIANTS.iter().filter(|v| **v != HttpVariant::LyingSmallCl) {
								cases.push((gi, n, pad, e, *v));
							}
						}
						_ => {
							for v in HTTP_VARIANTS {
								cases.push((gi, n, pad, e, v));
							}
						}
					}
				}
			}
		}
	}
	let outcomes: Mutex<std::collections::HashMap<(u32, usize, String, String), Vec<(u32, Outcome)>>> = Mutex::new(Default::default());
	par_for(rep, cases.len(), 4, srv::rt, |i, rt, local: &mut Local| {
		let (gi, n, pad, entry, variant) = cases[i];
		let (rq, rs) = grid[gi];
		let Some(msg) = message(n, pad) else { return };
		let is_ws = matches!(entry, Entry::TowerWs | Entry::LowWsConnect | Entry::ServerTcpWs | Entry::TowerWsOnly);
		let is_tcp = matches!(entry, Entry::ServerTcpHttp | Entry::ServerTcpWs | Entry::ServerTcpH2);
		let mut res = rt.block_on(async {
			if is_ws { run_ws(entry, rq, rs, &msg).await } else { run_http(entry, rq, rs, &msg, variant).await }
		});
		// kernel sockets and wall-clock timeouts: a transport problem on the TCP entry points must reproduce to count
		let mut attempts = 1;
		while is_tcp && res.is_err() && attempts < 3 {
			attempts += 1;
			res = rt.block_on(async { if is_ws { run_ws(entry, rq, rs, &msg).await } else { run_http(entry, rq, rs, &msg, variant).await } });
		}
		let case = json!({"engine":"ENUM","max_request_body_size": rq, "max_response_body_size": rs, "message_bytes": n, "padding": format!("{pad:?}"),
			"entry_point": format!("{entry:?}"), "http_variant": if is_ws { Value::Null } else { json!(format!("{variant:?}")) }, "outcome": format!("{res:?}")});
		let sigfeat = format!("{entry:?}{}", if is_ws { String::new() } else { format!(":{variant:?}") });
		let out = match res {
			Ok(o) => o,
			Err(e) if e.contains("os error") => {
				rep.machinery_error(format!("{sigfeat}: {e}"));
				return;
			}
			Err(e) => {
				rep.violation(&format!("transport-problem:{sigfeat}"), &format!("{e}"), case);
				return;
			}
		};
		let over = n > rq as usize;
		let class;
		if over {
			class = "over-limit";
			if out.handler_runs != 0 {
				rep.violation(&format!("oversized-processed:{sigfeat}"), &format!("a {n}-byte message was dispatched to a handler although max_request_body_size = {rq} (max_response_body_size = {rs})"), case.clone());
			}
			let rejected = if is_ws { out.reply == "err-32007" } else { out.reply.starts_with("status") && out.reply != "status200" };
			if !rejected {
				rep.violation(&format!("oversized-not-rejected:{sigfeat}"), &format!("a {n}-byte message with limit {rq} was answered `{}`, expected {}", out.reply, if is_ws { "-32007" } else { "an HTTP error status" }), case.clone());
			}
			if is_ws && !out.keeps_serving {
				rep.violation(&format!("oversized-closes-connection:{sigfeat}"), "after an oversized message the connection did not answer a later call", case.clone());
			}
		} else {
			class = "within-limit";
			let ok_reply = out.reply == "result" || out.reply == "err-32008";
			if out.handler_runs != 1 || !ok_reply {
				rep.violation(
					&format!("within-limit-not-processed:{sigfeat}"),
					&format!("a {n}-byte message with max_request_body_size = {rq} (max_response_body_size = {rs}) was not processed normally: handler runs {}, reply `{}`", out.handler_runs, out.reply),
					case.clone(),
				);
			}
			if is_ws && !out.keeps_serving {
				rep.violation(&format!("stops-serving:{sigfeat}"), "connection did not answer a later call", case.clone());
			}
		}
		// independence of the response limit: same (max_request, size, padding, entry/variant) must give the same processed/rejected outcome
		let key = (rq, n, format!("{pad:?}"), sigfeat.clone());
		outcomes.lock().unwrap().entry(key).or_default().push((rs, out.clone()));
		local.case_unique(&format!("{class}:{}:{}", if is_ws { "ws" } else { "http" }, out.reply));
		if i % 997 == 5 {
			rep.sample(case);
		}
	});
	// second sweep for independence: the same request limit with three different response limits
	let indep: Vec<(u32, usize, Pad, Entry, HttpVariant)> = {
		let mut v = Vec::new();
		for n in [98usize, 99, 100, 101, 102, 200] {
			for pad in PADS {
				for e in ENTRIES {
					v.push((100u32, n, pad, e, HttpVariant::ThreeFrames));
				}
			}
		}
		v
	};
	par_for(rep, indep.len(), 2, srv::rt, |i, rt, local| {
		let (rq, n, pad, entry, variant) = indep[i];
		let Some(msg) = message(n, pad) else { return };
		let is_ws = matches!(entry, Entry::TowerWs | Entry::LowWsConnect | Entry::ServerTcpWs | Entry::TowerWsOnly);
		let mut seen: Vec<(u32, (usize, bool))> = Vec::new();
		for rs in [36u32, 100, 1000, 1 << 20] {
			let res = rt.block_on(async { if is_ws { run_ws(entry, rq, rs, &msg).await } else { run_http(entry, rq, rs, &msg, variant).await } });
			if let Ok(o) = res {
				seen.push((rs, (o.handler_runs, o.reply == "result" || o.reply == "err-32008")));
			}
			local.case_unique("independence");
		}
		if seen.windows(2).any(|w| w[0].1 != w[1].1) {
			rep.violation(
				&format!("depends-on-response-limit:{entry:?}"),
				&format!("max_request_body_size = {rq}, {n}-byte message via {entry:?}: whether it is processed changes with max_response_body_size: {seen:?}"),
				json!({"engine":"ENUM","max_request_body_size": rq, "message_bytes": n, "entry_point": format!("{entry:?}"), "by_response_limit": format!("{seen:?}")}),
			);
		}
	});
	backlog_leg(rep);
}

// ---- SCHED leg: the answer to an oversized WebSocket message on a backlogged connection -------------------------------

/// One WebSocket connection whose outgoing buffer has capacity 1 and whose writer task is a scheduling point (held back
/// at will, or once): replies queue up, then an oversized frame arrives. The oversized frame must be answered -32007
/// and must not be dispatched whatever the state of the outgoing buffer; the calls around it are served as usual.
pub struct BacklogScenario {
	pub name: String,
	pub acts: Vec<PeerAct>,
	pub buffer: u32,
	pub low_ws: bool,
}

const BACKLOG_LIMIT: u32 = 256;

impl Scenario for BacklogScenario {
	type State = SrvState;
	fn name(&self) -> String {
		format!("srv_mem/oversized-backlog:{}", self.name)
	}
	fn config(&self) -> Value {
		json!({"peer_script": format!("{:?}", self.acts), "message_buffer_capacity": self.buffer, "max_request_body_size": BACKLOG_LIMIT, "low_level_ws_connect": self.low_ws})
	}
	fn mask(&self) -> fn(&str) -> bool {
		mask_writer
	}
	fn max_steps(&self) -> usize {
		200
	}
	fn once_labels(&self) -> &'static [&'static str] {
		if self.name.contains("writer-held-once") { &["server:ws:send_task:before_send"] } else { &[] }
	}
	fn setup(&self) -> SrvState {
		smem::setup(&SrvCfg { conns: vec![Conn::Ws(self.acts.clone())], buffer: self.buffer, max_req: BACKLOG_LIMIT, low_ws: self.low_ws, ..Default::default() })
	}
	fn judge(&self, _st: SrvState, trace: &[String], panics: &[String], status: Status) -> Verdict {
		let mut v: Vec<(String, String)> = Vec::new();
		if status != Status::Quiescent {
			v.push((format!("machinery:{status:?}"), format!("{status:?}")));
		}
		for p in panics {
			v.push(("panic".into(), p.clone()));
		}
		let sent_big = trace.iter().filter(|l| l.starts_with("c0:tx:OVERSIZED")).count();
		let sent_calls: Vec<Value> = trace.iter().filter_map(|l| l.strip_prefix("c0:tx:")).filter_map(|t| serde_json::from_str::<Value>(t).ok()).collect();
		let rx: Vec<Value> = trace.iter().filter_map(|l| l.strip_prefix("c0:rx:")).filter_map(|t| serde_json::from_str::<Value>(t).ok()).collect();
		let closed = trace.iter().any(|l| l == "c0:eof" || l.contains("tx-failed"));
		let rejections = rx.iter().filter(|m| m["error"]["code"] == -32007 && m["id"].is_null()).count();
		let handler_runs = trace.iter().filter(|l| *l == "call:add").count();
		if closed {
			v.push(("connection-closed".into(), "the server closed the connection although the peer only sent valid calls and oversized frames".into()));
		}
		if rejections < sent_big {
			v.push((
				format!("oversized-not-answered:buffer{}", self.buffer),
				format!("the peer sent {sent_big} oversized frame(s) and stayed connected and reading, but received {rejections} `request too big` (-32007) rejection(s) by quiescence"),
			));
		}
		if rejections > sent_big {
			v.push(("rejection-without-oversized-frame".into(), format!("{rejections} -32007 rejections for {sent_big} oversized frames")));
		}
		if handler_runs != sent_calls.len() {
			v.push(("handler-runs".into(), format!("{} ordinary calls were sent but the `add` handler ran {handler_runs} times (an oversized frame must never be dispatched, an ordinary call always)", sent_calls.len())));
		}
		for c in &sent_calls {
			if !rx.iter().any(|m| m["id"] == c["id"] && m.get("result").is_some()) {
				v.push(("call-not-answered".into(), format!("call {} was never answered", c["id"])));
			}
		}
		// no reply carries the id of an oversized call (its content was never looked at)
		if rx.iter().any(|m| m["id"].as_str().map_or(false, |s| s.starts_with("big"))) {
			v.push(("oversized-frame-parsed".into(), "a reply carries the id of an oversized call".into()));
		}
		let order: Vec<String> = rx.iter().map(|m| if m["error"]["code"] == -32007 { "TOO-BIG".to_string() } else { m["id"].to_string() }).collect();
		Verdict { violations: v, outcome: format!("{order:?}") }
	}
}

/// harness points plus the connection writer's point
fn mask_writer(l: &str) -> bool {
	!l.starts_with("client:") && (!l.starts_with("server:") || l == "server:ws:send_task:before_send")
}

pub fn backlog_scenarios(thorough: bool) -> Vec<BacklogScenario> {
	use PeerAct::*;
	let big = Oversized(BACKLOG_LIMIT as usize + 1);
	let huge = Oversized(BACKLOG_LIMIT as usize * 20);
	let mut v = Vec::new();
	let mut add = |name: &str, acts: Vec<PeerAct>, buffer: u32, low_ws: bool| v.push(BacklogScenario { name: name.to_string(), acts, buffer, low_ws });
	add("idle-connection", vec![big.clone(), Call], 16, false);
	add("behind-two-calls-buffer1-writer-point", vec![Call, Call, big.clone(), Call], 1, false);
	add("behind-two-calls-buffer1-writer-held-once", vec![Call, Call, big.clone(), Call], 1, false);
	add("two-oversized-buffer1-writer-point", vec![Call, big.clone(), huge.clone(), Call], 1, false);
	add("two-oversized-back-to-back-buffer1-writer-held-once", vec![big.clone(), big.clone(), Call], 1, false);
	add("behind-two-calls-buffer1-low-level-writer-held-once", vec![Call, Call, big.clone(), Call], 1, true);
	add("behind-three-calls-buffer2-writer-held-once", vec![Call, Call, Call, huge.clone(), Call], 2, false);
	if thorough {
		add("three-oversized-buffer1-writer-point", vec![Call, big.clone(), big.clone(), huge.clone(), Call], 1, false);
		add("behind-three-calls-buffer2-writer-point", vec![Call, Call, Call, big.clone(), Call], 2, false);
		add("two-oversized-buffer1-low-level-writer-point", vec![Call, big.clone(), huge, Call], 1, true);
		add("behind-four-calls-buffer3-writer-held-once", vec![Call, Call, Call, Call, big, Call], 3, false);
	}
	v
}

fn backlog_leg(rep: &Reporter) {
	let thorough = rep.tier.thorough();
	rep.assume("SCHED leg: one WebSocket peer over an in-memory duplex that keeps reading; the connection's writer task parks at the cfg point server:ws:send_task:before_send (every time, or only the first time), so the outgoing buffer (capacity 1–3) is full when the oversized frame is handled in some schedules");
	for s in backlog_scenarios(thorough) {
		sched::explore_auto(&s, rep, if thorough { 300_000 } else { 10_000 }, if thorough { 3 } else { 2 }, if thorough { 2 } else { 1 }, Duration::from_secs(if thorough { 200 } else { 5 }));
	}
}

pub fn dyn_scenarios() -> Vec<Box<dyn sched::DynScenario>> {
	backlog_scenarios(true).into_iter().map(|s| Box::new(s) as Box<dyn sched::DynScenario>).collect()
}
