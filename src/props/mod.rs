//! One module per property.

use crate::report::Reporter;

pub mod c01;
pub mod c02;
pub mod c03;
pub mod c04;
pub mod c05;
pub mod c06;
pub mod c07;
pub mod c08;
pub mod c09;
pub mod c10;
pub mod c11;
pub mod c12;
pub mod c13;
pub mod c14;
pub mod c15;
pub mod c16;
pub mod c17;
pub mod c18;
pub mod c19;
pub mod c20;
pub mod srvref;

pub const REGISTRY: &[(&str, fn(&Reporter), &str)] = &[("C01", c01::check, "exploration"), ("C02", c02::check, "exploration"), ("C03", c03::check, "model_checking"), ("C04", c04::check, "model_checking"), ("C05", c05::check, "model_checking"), ("C06", c06::check, "model_checking"), ("C07", c07::check, "exploration"), ("C08", c08::check, "exploration"), ("C09", c09::check, "model_checking"), ("C10", c10::check, "model_checking"), ("C11", c11::check, "model_checking"), ("C12", c12::check, "exploration"), ("C13", c13::check, "model_checking"), ("C14", c14::check, "exploration"), ("C15", c15::check, "exploration"), ("C16", c16::check, "exploration"), ("C17", c17::check, "exploration"), ("C18", c18::check, "model_checking"), ("C19", c19::check, "exploration"), ("C20", c20::check, "exploration")];

/// Re-execute a replay artefact; prints REPRODUCED / NOT-REPRODUCED.
pub fn replay(v: &serde_json::Value) -> i32 {
	let prop = v.get("property").and_then(|p| p.as_str()).unwrap_or("");
	let r = &v["replay"];
	let sched_props = ["C01", "C03", "C04", "C05", "C06", "C07", "C09", "C10", "C11"];
	if r.get("engine").and_then(|e| e.as_str()) == Some("SCHED") && sched_props.contains(&prop) {
		let name = r["scenario"].as_str().unwrap_or("");
		let choices: Vec<usize> = r["choices"].as_array().map(|a| a.iter().filter_map(|x| x.as_u64().map(|n| n as usize)).collect()).unwrap_or_default();
		let scen: Vec<Box<dyn crate::sched::DynScenario>> = match prop {
			"C09" => c09::dyn_scenarios(),
			"C01" => c01::dyn_scenarios(),
			"C03" => c03::dyn_scenarios(),
			"C04" => c04::dyn_scenarios(),
			"C06" => c06::dyn_scenarios(),
			"C10" => c10::dyn_scenarios(),
			"C11" => c11::dyn_scenarios(),
			"C05" => c05::dyn_scenarios(),
			"C07" => c07::dyn_scenarios(),
			_ => vec![],
		};
		let Some(s) = scen.iter().find(|s| s.dyn_name() == name) else {
			println!("scenario {name:?} not found for {prop}");
			return 2;
		};
		let (trace, labels, viol, outcome, ns) = s.dyn_replay(&choices);
		println!("scenario: {name}\nchoices: {choices:?}\nenabled-counts: {ns:?}");
		for l in &labels {
			println!("  decision: {l}");
		}
		for t in &trace {
			println!("  {t}");
		}
		println!("outcome: {outcome}");
		let want = v["signature"].as_str().unwrap_or("");
		for (sig, what) in &viol {
			println!("violation: {sig}: {what}");
		}
		if viol.iter().any(|(s, _)| s == want) {
			println!("REPRODUCED");
			return 1;
		}
		println!("NOT-REPRODUCED");
		return 0;
	}
	// ENUM replays of the server message checks: re-send exactly that message
	if (prop == "C01" || prop == "C02") && r.get("message_hex").is_some() {
		let hex = r["message_hex"].as_str().unwrap_or("");
		let msg: Vec<u8> = (0..hex.len() / 2).filter_map(|i| u8::from_str_radix(&hex[2 * i..2 * i + 2], 16).ok()).collect();
		let batch = match r["batch_config"].as_str().unwrap_or("Unlimited") {
			"Disabled" => jsonrpsee_server::BatchRequestConfig::Disabled,
			s if s.starts_with("Limit(") => jsonrpsee_server::BatchRequestConfig::Limit(s.trim_start_matches("Limit(").trim_end_matches(')').parse().unwrap_or(0)),
			_ => jsonrpsee_server::BatchRequestConfig::Unlimited,
		};
		let rep = crate::report::Reporter::new(if prop == "C01" { "C01" } else { "C02" }, crate::report::Tier::Quick, 0, "exploration", 1);
		let rt = crate::srv::rt();
		let _e = rt.enter();
		let mut http = crate::srv::http_service(crate::srv::cfg_builder().set_batch_request_config(batch).build());
		let ws = crate::srv::ws_server(crate::srv::cfg_builder().set_batch_request_config(batch).build());
		let mut local = crate::report::Local::default();
		c01::run_case(&rep, &mut local, &rt, &mut http, &ws, "replay", &msg, batch, "");
		let want = v["signature"].as_str().unwrap_or("");
		// cases found on the SRV-TCP leg (Server::start over loopback sockets, with or without RPC middleware)
		if want.starts_with("tcp:h2:") {
			c01::h2_case(&rep, &mut local, &rt, "replay", &msg, batch);
		} else if want.starts_with("tcp") {
			c01::tcp_case(&rep, &mut local, &rt, "replay", &msg, batch, want.starts_with("tcp+middleware"));
		}
		println!("message: {:?}\nbatch config: {batch:?}", String::from_utf8_lossy(&msg));
		let got = rep.reported();
		for (sig, what) in &got {
			println!("violation: {sig}: {what}");
		}
		if got.iter().any(|(s, _)| s == want) {
			println!("REPRODUCED");
			return 1;
		}
		println!("NOT-REPRODUCED");
		return 0;
	}
	// ENUM / HIST cases: re-run the check restricted to the recorded case (leg number + index, or leg number + history)
	if let Some(cr) = r.get("case_ref") {
		let Some((name, check, level)) = REGISTRY.iter().find(|(n, _, _)| *n == prop) else {
			println!("unknown property {prop}");
			return 2;
		};
		let tier = if cr["tier"] == "thorough" { crate::report::Tier::Thorough } else { crate::report::Tier::Quick };
		let leg = cr["leg"].as_u64().unwrap_or(u64::MAX) as usize;
		let idx: Vec<usize> = match (cr.get("index"), cr.get("history")) {
			(Some(i), _) if i.is_u64() => vec![i.as_u64().unwrap() as usize],
			(_, Some(h)) => h.as_array().map(|a| a.iter().filter_map(|x| x.as_u64().map(|n| n as usize)).collect()).unwrap_or_default(),
			_ => vec![],
		};
		let mut rep = Reporter::new(name, tier, 0, level, 1);
		rep.replay_filter = Some((leg, idx.clone()));
		crate::sched::install_hooks();
		let res = std::panic::catch_unwind(std::panic::AssertUnwindSafe(|| check(&rep)));
		println!("case: property {prop}, tier {:?}, enumeration leg {leg}, {} {idx:?}", cr["tier"], if cr.get("history").is_some() { "history (menu indices)" } else { "index" });
		println!("recorded case: {}", serde_json::to_string(r).unwrap_or_default());
		if res.is_err() {
			println!("the check panicked while re-evaluating the case");
		}
		let want = v["signature"].as_str().unwrap_or("");
		let got = rep.reported();
		for (sig, what) in &got {
			println!("violation: {sig}: {what}");
		}
		if got.iter().any(|(s, _)| s == want) {
			println!("REPRODUCED");
			return 1;
		}
		println!("NOT-REPRODUCED");
		return 0;
	}
	// no finer address was recorded (sequential enumerations such as C17's stub products): re-evaluate the whole tier
	let Some((name, check, level)) = REGISTRY.iter().find(|(n, _, _)| *n == prop) else {
		println!("unknown property {prop}");
		return 2;
	};
	let tier = if v["tier"] == "thorough" { crate::report::Tier::Thorough } else { crate::report::Tier::Quick };
	let jobs = std::thread::available_parallelism().map(|n| n.get()).unwrap_or(4);
	let rep = Reporter::new(name, tier, 0, level, jobs);
	crate::sched::install_hooks();
	let res = std::panic::catch_unwind(std::panic::AssertUnwindSafe(|| check(&rep)));
	println!("recorded case: {}", serde_json::to_string(r).unwrap_or_default());
	println!("(no single-case address in this file: the whole {} tier of {prop} was re-evaluated)", tier.name());
	if res.is_err() {
		println!("the check panicked");
	}
	let want = v["signature"].as_str().unwrap_or("");
	let got = rep.reported();
	for (sig, what) in got.iter().filter(|(s, _)| s == want) {
		println!("violation: {sig}: {what}");
	}
	if got.iter().any(|(s, _)| s == want) {
		println!("REPRODUCED");
		return 1;
	}
	println!("NOT-REPRODUCED");
	0
}
