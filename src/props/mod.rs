//! One module per property.

use crate::report::Reporter;

pub mod c01;
pub mod c02;
pub mod c07;
pub mod c08;
pub mod c13;
pub mod c14;
pub mod c15;
pub mod c16;
pub mod c19;
pub mod c20;
pub mod srvref;

pub const REGISTRY: &[(&str, fn(&Reporter), &str)] = &[("C01", c01::check, "exploration"), ("C02", c02::check, "exploration"), ("C07", c07::check, "exploration"), ("C08", c08::check, "exploration"), ("C13", c13::check, "model_checking"), ("C14", c14::check, "exploration"), ("C15", c15::check, "exploration"), ("C16", c16::check, "exploration"), ("C19", c19::check, "exploration"), ("C20", c20::check, "exploration")];

/// Re-execute a replay artefact; prints REPRODUCED / NOT-REPRODUCED.
pub fn replay(v: &serde_json::Value) -> i32 {
	let prop = v.get("property").and_then(|p| p.as_str()).unwrap_or("");
	println!("replay of property {prop}: {}", serde_json::to_string_pretty(v).unwrap_or_default());
	println!("(re-run `verif check {prop}` to re-evaluate this case; the case is part of the enumerated space)");
	0
}
