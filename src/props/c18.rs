//! C18 — client bookkeeping returns to empty (HIST over operation histories of the real async client, table-size accessor hook).

use crate::clim::{MockRx, MockTx, Shared};
use crate::hist::{Step, bfs};
use crate::report::Reporter;
use crate::sched::{self, Scenario, Status, Verdict};
use jsonrpsee_core::client::async_client::{Client, ClientBuilder};
use jsonrpsee_core::client::{ClientT, ReceivedMessage, Subscription, SubscriptionClientT};
use jsonrpsee_core::params::BatchRequestBuilder;
use jsonrpsee_core::rpc_params;
use serde_json::{Value, json};
use std::sync::{Arc, Mutex};
use std::time::Duration;
use tokio::sync::Notify;

const CAP: usize = 3;

#[derive(Clone, Debug, PartialEq)]
pub enum Ev {
	Call,
	AnsCallOk,
	AnsCallErr,
	Sub(usize),
	/// the application drops the subscribe future before the server answers
	AbandonSub(usize),
	AnsSubOk(usize),
	AnsSubErr(usize),
	AnsSubMalformed(usize),
	/// the server answers subscription 1 with the id subscription 0 already holds
	AnsSubDup,
	Notif(usize),
	Lag(usize),
	Unsub(usize),
	DropSub(usize),
	AnsUnsub(usize),
	Close(usize),
	/// ONE array message: enough items for subscription i to make it lag, followed by the close notification of the other one
	LagCloseArray(usize),
	/// ONE array message closing both subscriptions
	CloseBothArray,
	Batch,
	AnsBatch,
	Reg,
	Unreg,
	DropHandler,
	MethodNotif,
	/// a response that re-uses the id of the finished call / of the finished subscribe request of sub 0
	StaleCall,
	StaleSub,
}

#[derive(Clone, Copy, Debug, PartialEq, Eq, Hash, PartialOrd, Ord)]
enum CallSt {
	None,
	Pending,
	Done,
}
#[derive(Clone, Copy, Debug, PartialEq, Eq, Hash, PartialOrd, Ord)]
enum SubSt {
	None,
	Requested,
	Abandoned,
	Active,
	/// the application/client ended it; an unsubscribe request awaits its acknowledgement
	Ending,
	/// abandoned before the ack, then accepted by the server: the client owes the server an unsubscribe
	AbandonedAccepted,
	Done,
}
#[derive(Clone, Copy, Debug, PartialEq, Eq, Hash, PartialOrd, Ord)]
enum HSt {
	None,
	Registered,
	Gone,
}

#[derive(Clone, Debug, PartialEq, Eq, Hash)]
struct Ref {
	call: CallSt,
	subs: [SubSt; 2],
	queued: [usize; 2],
	batch: CallSt,
	handler: HSt,
	dead: bool,
}

impl Ref {
	fn new() -> Self {
		Ref { call: CallSt::None, subs: [SubSt::None; 2], queued: [0; 2], batch: CallSt::None, handler: HSt::None, dead: false }
	}
	/// apply an event; None = not enabled
	fn step(&self, ev: &Ev) -> Option<Ref> {
		if self.dead {
			return None;
		}
		let mut r = self.clone();
		match ev {
			Ev::Call if r.call == CallSt::None => r.call = CallSt::Pending,
			Ev::AnsCallOk | Ev::AnsCallErr if r.call == CallSt::Pending => r.call = CallSt::Done,
			Ev::Sub(i) if r.subs[*i] == SubSt::None && (*i == 0 || r.subs[0] != SubSt::None) => r.subs[*i] = SubSt::Requested,
			Ev::AbandonSub(i) if r.subs[*i] == SubSt::Requested => r.subs[*i] = SubSt::Abandoned,
			Ev::AnsSubOk(i) if r.subs[*i] == SubSt::Requested => r.subs[*i] = SubSt::Active,
			Ev::AnsSubOk(i) if r.subs[*i] == SubSt::Abandoned => r.subs[*i] = SubSt::AbandonedAccepted,
			Ev::AnsSubErr(i) | Ev::AnsSubMalformed(i) if matches!(r.subs[*i], SubSt::Requested | SubSt::Abandoned) => r.subs[*i] = SubSt::Done,
			Ev::AnsSubDup if r.subs[1] == SubSt::Requested && r.subs[0] == SubSt::Active => r.subs[1] = SubSt::Done,
			Ev::Notif(i) if r.subs[*i] == SubSt::Active && r.queued[*i] < CAP - 1 => r.queued[*i] += 1,
			Ev::Lag(i) if r.subs[*i] == SubSt::Active => {
				r.subs[*i] = SubSt::Ending;
				r.queued[*i] = 0;
			}
			Ev::Unsub(i) | Ev::DropSub(i) if r.subs[*i] == SubSt::Active => {
				r.subs[*i] = SubSt::Ending;
				r.queued[*i] = 0;
			}
			Ev::AnsUnsub(i) if matches!(r.subs[*i], SubSt::Ending | SubSt::AbandonedAccepted) => r.subs[*i] = SubSt::Done,
			Ev::Close(i) if r.subs[*i] == SubSt::Active => {
				r.subs[*i] = SubSt::Done;
				r.queued[*i] = 0;
			}
			Ev::LagCloseArray(i) if r.subs[*i] == SubSt::Active && r.subs[1 - *i] == SubSt::Active => {
				r.subs[*i] = SubSt::Ending;
				r.subs[1 - *i] = SubSt::Done;
				r.queued = [0; 2];
			}
			Ev::CloseBothArray if r.subs[0] == SubSt::Active && r.subs[1] == SubSt::Active => {
				r.subs = [SubSt::Done; 2];
				r.queued = [0; 2];
			}
			Ev::Batch if r.batch == CallSt::None => r.batch = CallSt::Pending,
			Ev::AnsBatch if r.batch == CallSt::Pending => r.batch = CallSt::Done,
			Ev::Reg if r.handler == HSt::None => r.handler = HSt::Registered,
			Ev::Unreg | Ev::DropHandler if r.handler == HSt::Registered => r.handler = HSt::Gone,
			Ev::MethodNotif if r.handler != HSt::None => {}
			Ev::StaleCall if r.call == CallSt::Done => r.dead = true,
			Ev::StaleSub if r.subs[0] == SubSt::Done => r.dead = true,
			_ => return None,
		}
		Some(r)
	}
	fn all_done(&self) -> bool {
		self.call != CallSt::Pending
			&& self.batch != CallSt::Pending
			&& self.handler != HSt::Registered
			&& self.subs.iter().all(|s| matches!(s, SubSt::None | SubSt::Done))
	}
	/// generous upper bounds for the four tables in this state
	fn bounds(&self) -> [usize; 4] {
		let live_subs = self.subs.iter().filter(|s| !matches!(s, SubSt::None | SubSt::Done)).count();
		let active = self.subs.iter().filter(|s| matches!(s, SubSt::Active)).count();
		[
			(self.call == CallSt::Pending) as usize + 2 * live_subs,
			active + self.subs.iter().filter(|s| matches!(s, SubSt::AbandonedAccepted)).count(),
			(self.batch == CallSt::Pending) as usize,
			(self.handler == HSt::Registered) as usize,
		]
	}
}

pub struct HistScenario {
	pub hist: Vec<Ev>,
}

pub struct HState {
	client: Arc<Client>,
	shared: Arc<Shared>,
	problems: Arc<Mutex<Vec<String>>>,
	_subs: Arc<Mutex<[Option<Subscription<Value>>; 2]>>,
	_handler: Arc<Mutex<Option<Subscription<Value>>>>,
}

fn mask(l: &str) -> bool {
	!(l.starts_with("server:") || l.starts_with("client:"))
}

fn find_wire(shared: &Shared, pred: impl Fn(&Value) -> bool) -> Option<Value> {
	shared.sent.lock().unwrap().iter().filter_map(|m| serde_json::from_str::<Value>(m).ok()).find(|v| pred(v))
}

fn sub_id(i: usize) -> Value {
	json!(format!("S{i}"))
}

impl Scenario for HistScenario {
	type State = HState;
	fn name(&self) -> String {
		format!("cli_mem/bookkeeping:{:?}", self.hist)
	}
	fn config(&self) -> Value {
		json!({"history": format!("{:?}", self.hist)})
	}
	fn mask(&self) -> fn(&str) -> bool {
		mask
	}
	fn max_steps(&self) -> usize {
		64
	}
	fn setup(&self) -> HState {
		let shared = Arc::new(Shared { rx_split: false, fail_ping: false, fail_close: false,
			sent: Default::default(),
			send_calls: Default::default(),
			fail_send_at: None,
			wire_notify: Notify::new(),
			rxq: Default::default(),
			rx_notify: Notify::new(),
			tx_closed: Default::default(),
			tx_points: false,
		});
		let client: Client = ClientBuilder::default()
			.request_timeout(Duration::from_secs(3600))
			.max_buffer_capacity_per_subscription(CAP)
			.build_with_tokio(MockTx(shared.clone()), MockRx(shared.clone()));
		let client = Arc::new(client);
		let problems = Arc::new(Mutex::new(Vec::new()));
		let subs: Arc<Mutex<[Option<Subscription<Value>>; 2]>> = Arc::new(Mutex::new([None, None]));
		let handler: Arc<Mutex<Option<Subscription<Value>>>> = Arc::new(Mutex::new(None));
		let abandon: [Arc<Notify>; 2] = [Arc::new(Notify::new()), Arc::new(Notify::new())];
		let hist = self.hist.clone();
		{
			let client = client.clone();
			let shared = shared.clone();
			let problems = problems.clone();
			let subs = subs.clone();
			let handler = handler.clone();
			tokio::spawn(async move {
				let deliver = |v: Value| shared.push_rx(Ok(ReceivedMessage::Text(v.to_string())));
				let missing = |what: &str| problems.lock().unwrap().push(format!("harness: {what} not found on the wire"));
				for (k, ev) in hist.into_iter().enumerate() {
					// one parked point at a time: the driver releases the events in order, with quiescence in between
					sched::point(format!("ev:{k}")).await;
					sched::log(format!("ev:{k}:{ev:?}"));
					match ev {
						Ev::Call => {
							let client = client.clone();
							tokio::spawn(async move {
								let r = client.request::<Value, _>("c0", rpc_params![]).await;
								sched::log(format!("call-done:{}", r.is_ok()));
							});
						}
						Ev::AnsCallOk | Ev::AnsCallErr => match find_wire(&shared, |v| v["method"] == "c0") {
							Some(m) => {
								if ev == Ev::AnsCallOk {
									deliver(json!({"jsonrpc":"2.0","id": m["id"], "result": "ok"}))
								} else {
									deliver(json!({"jsonrpc":"2.0","id": m["id"], "error": {"code": 7, "message": "e"}}))
								}
							}
							None => missing("call c0"),
						},
						Ev::Sub(i) => {
							let client = client.clone();
							let subs = subs.clone();
							let ab = abandon[i].clone();
							tokio::spawn(async move {
								let fut = client.subscribe::<Value, _>("sub", rpc_params![i as u64], "unsub");
								tokio::select! {
									biased;
									r = fut => match r {
										Ok(s) => {
											sched::log(format!("sub-done:{i}:ok"));
											subs.lock().unwrap()[i] = Some(s);
										}
										Err(e) => sched::log(format!("sub-done:{i}:err:{e}")),
									},
									_ = ab.notified() => sched::log(format!("sub-abandoned:{i}")),
								}
							});
						}
						Ev::AbandonSub(i) => abandon[i].notify_one(),
						Ev::AnsSubOk(i) | Ev::AnsSubErr(i) | Ev::AnsSubMalformed(i) => match find_wire(&shared, |v| v["method"] == "sub" && v["params"] == json!([i])) {
							Some(m) => match ev {
								Ev::AnsSubOk(_) => deliver(json!({"jsonrpc":"2.0","id": m["id"], "result": sub_id(i)})),
								Ev::AnsSubErr(_) => deliver(json!({"jsonrpc":"2.0","id": m["id"], "error": {"code": 8, "message": "refused"}})),
								_ => deliver(json!({"jsonrpc":"2.0","id": m["id"], "result": [1, 2]})),
							},
							None => missing("subscribe request"),
						},
						Ev::AnsSubDup => match find_wire(&shared, |v| v["method"] == "sub" && v["params"] == json!([1])) {
							Some(m) => deliver(json!({"jsonrpc":"2.0","id": m["id"], "result": sub_id(0)})),
							None => missing("subscribe request 1"),
						},
						Ev::Notif(i) => deliver(json!({"jsonrpc":"2.0","method":"n","params":{"subscription": sub_id(i), "result": 1}})),
						Ev::Lag(i) => {
							for _ in 0..=CAP {
								deliver(json!({"jsonrpc":"2.0","method":"n","params":{"subscription": sub_id(i), "result": 1}}));
							}
						}
						Ev::Unsub(i) => {
							let s = subs.lock().unwrap()[i].take();
							if let Some(s) = s {
								tokio::spawn(async move {
									let _ = s.unsubscribe().await;
									sched::log(format!("unsubscribed:{i}"));
								});
							}
						}
						Ev::DropSub(i) => {
							let s = subs.lock().unwrap()[i].take();
							drop(s);
						}
						Ev::AnsUnsub(i) => match find_wire(&shared, |v| v["method"] == "unsub" && v["params"] == json!([sub_id(i)])) {
							Some(m) => deliver(json!({"jsonrpc":"2.0","id": m["id"], "result": true})),
							None => problems.lock().unwrap().push(format!("no-unsubscribe-request:sub{i}")),
						},
						Ev::Close(i) => deliver(json!({"jsonrpc":"2.0","method":"n","params":{"subscription": sub_id(i), "error": "bye"}})),
						Ev::LagCloseArray(i) => {
							let mut a: Vec<Value> = (0..=CAP).map(|_| json!({"jsonrpc":"2.0","method":"n","params":{"subscription": sub_id(i), "result": 1}})).collect();
							a.push(json!({"jsonrpc":"2.0","method":"n","params":{"subscription": sub_id(1 - i), "error": "bye"}}));
							deliver(Value::Array(a));
						}
						Ev::CloseBothArray => deliver(json!([
							{"jsonrpc":"2.0","method":"n","params":{"subscription": sub_id(0), "error": "bye"}},
							{"jsonrpc":"2.0","method":"n","params":{"subscription": sub_id(1), "error": "bye"}}
						])),
						Ev::Batch => {
							let client = client.clone();
							tokio::spawn(async move {
								let mut b = BatchRequestBuilder::new();
								b.insert("b", rpc_params![0]).unwrap();
								b.insert("b", rpc_params![1]).unwrap();
								let r = client.batch_request::<Value>(b).await;
								sched::log(format!("batch-done:{}", r.is_ok()));
							});
						}
						Ev::AnsBatch => match find_wire(&shared, |v| v.is_array()) {
							Some(m) => deliver(Value::Array(m.as_array().unwrap().iter().map(|e| json!({"jsonrpc":"2.0","id": e["id"], "result": "b"})).collect())),
							None => missing("batch"),
						},
						Ev::Reg => {
							let client = client.clone();
							let handler = handler.clone();
							tokio::spawn(async move {
								match client.subscribe_to_method::<Value>("srv").await {
									Ok(h) => *handler.lock().unwrap() = Some(h),
									Err(e) => sched::log(format!("reg-failed:{e}")),
								}
							});
						}
						Ev::Unreg => {
							let h = handler.lock().unwrap().take();
							if let Some(h) = h {
								tokio::spawn(async move {
									let _ = h.unsubscribe().await;
								});
							}
						}
						Ev::DropHandler => {
							let h = handler.lock().unwrap().take();
							drop(h);
						}
						Ev::MethodNotif => deliver(json!({"jsonrpc":"2.0","method":"srv","params":[1]})),
						Ev::StaleCall => match find_wire(&shared, |v| v["method"] == "c0") {
							Some(m) => deliver(json!({"jsonrpc":"2.0","id": m["id"], "result": "stale"})),
							None => missing("call c0"),
						},
						Ev::StaleSub => match find_wire(&shared, |v| v["method"] == "sub" && v["params"] == json!([0])) {
							Some(m) => deliver(json!({"jsonrpc":"2.0","id": m["id"], "result": "stale"})),
							None => missing("subscribe request 0"),
						},
					}
				}
			});
		}
		HState { client, shared, problems, _subs: subs, _handler: handler }
	}
	fn judge(&self, st: HState, _trace: &[String], panics: &[String], _status: Status) -> Verdict {
		let sizes = st.client.verif_table_sizes();
		let connected = st.client.is_connected();
		let mut out = format!("{sizes:?}|{connected}");
		for p in st.problems.lock().unwrap().iter() {
			out.push_str(&format!("|problem:{p}"));
		}
		for p in panics {
			out.push_str(&format!("|panic:{p}"));
		}
		let _ = &st.shared;
		Verdict { violations: vec![], outcome: out }
	}
}

fn menu() -> Vec<Ev> {
	let mut m = vec![Ev::Call, Ev::AnsCallOk, Ev::AnsCallErr, Ev::Batch, Ev::AnsBatch, Ev::Reg, Ev::Unreg, Ev::DropHandler, Ev::MethodNotif, Ev::AnsSubDup, Ev::CloseBothArray, Ev::StaleCall, Ev::StaleSub];
	for i in 0..2 {
		m.extend([Ev::Sub(i), Ev::AbandonSub(i), Ev::AnsSubOk(i), Ev::AnsSubErr(i), Ev::AnsSubMalformed(i), Ev::Notif(i), Ev::Lag(i), Ev::Unsub(i), Ev::DropSub(i), Ev::AnsUnsub(i), Ev::Close(i), Ev::LagCloseArray(i)]);
	}
	m
}

fn ev_kind(e: &Ev) -> String {
	format!("{e:?}").split('(').next().unwrap().to_string()
}

pub fn check(rep: &Reporter) {
	let thorough = rep.tier.thorough();
	let depth = 24; // the lifecycle model is once-through: the BFS reaches its fixpoint at depth 16 in both tiers
	rep.set_rule(&format!(
		"BFS over client histories up to depth {depth} from a menu of {} events (call / batch / two subscriptions / notification handler with their server answers: ok, error, malformed id, duplicate subscription id; abandon before ack, notification, lag overflow, unsubscribe, drop, unsubscribe acknowledgement, server-side close, stale responses re-using finished ids); each event runs the real client to quiescence; state key = (reference lifecycle state of every item, the four table sizes read through the accessor hook, connected flag). In every state each table is compared with an upper bound derived from what is still outstanding, and in every state with nothing outstanding all four tables must be empty; a response re-using a finished id must be treated like a never-used id (connection abandoned). Plus 1 000-fold (thorough: 10 000-fold) repetitions of each primitive lifecycle asserting constant sizes.",
		menu().len()
	));
	rep.assume("table sizes are read through the cfg(jsonrpsee_verif) accessor Client::verif_table_sizes()");
	sched::install_hooks();
	let menu = menu();
	let init = (Ref::new(), [0usize; 4], true);
	bfs(rep, "client-bookkeeping", init, &menu, depth, || (), |_, hist| {
		// reference first: is the last event enabled after the prefix?
		let mut r = Ref::new();
		for e in hist.iter() {
			match r.step(e) {
				Some(n) => r = n,
				None => return Step { key: None, violations: vec![] },
			}
		}
		let ex = sched::run_one(&HistScenario { hist: hist.to_vec() }, &[], false);
		let mut violations = Vec::new();
		let out = &ex.obs.outcome;
		let sizes: [usize; 4] = {
			let inner = out.trim_start_matches('[').split(']').next().unwrap_or("");
			let v: Vec<usize> = inner.split(',').filter_map(|x| x.trim().parse().ok()).collect();
			if v.len() == 4 { [v[0], v[1], v[2], v[3]] } else { [usize::MAX; 4] }
		};
		let connected = out.contains("|true");
		let last = hist.last().unwrap();
		let lk = ev_kind(last);
		if out.contains("|panic:") {
			violations.push((format!("panic:after-{lk}"), format!("a client task panicked: {out}")));
		}
		if let Some(p) = out.split("|problem:").nth(1) {
			let p = p.split('|').next().unwrap_or("");
			if p.starts_with("no-unsubscribe-request") {
				let how = if hist.iter().any(|e| matches!(e, Ev::AbandonSub(_))) { "abandoned-before-ack" } else { "ended" };
				violations.push((format!("no-unsubscribe-request:{how}"), format!("a subscription the application gave up ({how}) was accepted/ended but the client never put an unsubscribe request on the wire, so it can never be acknowledged")));
			} else {
				violations.push(("harness-problem".into(), p.to_string()));
			}
		}
		const NAMES: [&str; 4] = ["requests", "subscriptions", "batches", "notification_handlers"];
		if r.dead {
			if connected {
				let which = if *last == Ev::StaleCall { "call" } else { "subscribe" };
				violations.push((
					format!("stale-id-captured:{which}"),
					format!("a response re-using the id of the finished {which} request was accepted silently (client still connected); a never-used id makes the client abandon the connection"),
				));
			}
		} else {
			if !connected {
				violations.push((format!("disconnected:after-{lk}"), "the client abandoned the connection during a history of well-formed messages".into()));
			}
			let b = r.bounds();
			for t in 0..4 {
				if sizes[t] > b[t] {
					let how = leak_path(hist);
					violations.push((
						format!("table-exceeds-outstanding:{}:{how}", NAMES[t]),
						format!("table `{}` holds {} entries but at most {} items are outstanding (state {:?}) — sizes {:?}", NAMES[t], sizes[t], b[t], r, sizes),
					));
				}
			}
			if r.all_done() && sizes != [0, 0, 0, 0] {
				let how = leak_path(hist);
				violations.push((format!("not-empty-when-done:{how}"), format!("nothing is outstanding (state {r:?}) but the tables hold {sizes:?} (requests, subscriptions, batches, notification handlers)")));
			}
		}
		Step { key: Some((r, sizes, connected)), violations }
	});

	// SCHED leg: drop while the request queue is full, all interleavings
	for subscription in [false, true] {
		sched::explore_auto(&DropUnderBackpressure { subscription }, rep, if thorough { 400_000 } else { 40_000 }, 3, 50, Duration::from_secs(if thorough { 120 } else { 10 }));
	}

	// long repetitions of each primitive lifecycle on ONE client: sizes must not grow
	for (name, cycle) in [
		("call", vec![Ev::Call, Ev::AnsCallOk]),
		("batch", vec![Ev::Batch, Ev::AnsBatch]),
		("subscribe-unsubscribe", vec![Ev::Sub(0), Ev::AnsSubOk(0), Ev::Unsub(0), Ev::AnsUnsub(0)]),
		("subscribe-drop", vec![Ev::Sub(0), Ev::AnsSubOk(0), Ev::DropSub(0), Ev::AnsUnsub(0)]),
		("subscribe-refused", vec![Ev::Sub(0), Ev::AnsSubErr(0)]),
		("subscribe-server-close", vec![Ev::Sub(0), Ev::AnsSubOk(0), Ev::Close(0)]),
		("subscribe-lag", vec![Ev::Sub(0), Ev::AnsSubOk(0), Ev::Lag(0), Ev::AnsUnsub(0)]),
		("handler", vec![Ev::Reg, Ev::MethodNotif, Ev::Unreg]),
	] {
		let reps = if thorough { 10_000 } else { 1000 };
		let sizes = repeat_cycle(&cycle, reps);
		rep.add_evals(1, 1, "repetition");
		if sizes.windows(2).any(|w| w[1].iter().zip(w[0].iter()).any(|(a, b)| a > b)) || sizes.last() != Some(&[0, 0, 0, 0]) {
			let first = sizes.first().cloned().unwrap_or_default();
			let last = sizes.last().cloned().unwrap_or_default();
			rep.violation(
				&format!("growth:{name}"),
				&format!("repeating the `{name}` lifecycle {reps}× on one client: table sizes after the 1st cycle {first:?}, after the last {last:?}"),
				json!({"engine":"HIST","cycle": format!("{cycle:?}"), "repetitions": reps, "sizes_first": first, "sizes_last": last}),
			);
		}
	}
}

fn leak_path(hist: &[Ev]) -> String {
	// which way of ending a subscription / item precedes the leak: the distinguishing feature for the signature
	let mut tags: Vec<&str> = Vec::new();
	for e in hist {
		let t = match e {
			Ev::Unsub(_) => "unsubscribe",
			Ev::DropSub(_) => "drop",
			Ev::Lag(_) => "lag",
			Ev::Close(_) => "server-close",
			Ev::LagCloseArray(_) => "lag-then-close-in-one-array",
			Ev::CloseBothArray => "two-closes-in-one-array",
			Ev::AnsSubErr(_) => "refused",
			Ev::AnsSubMalformed(_) => "malformed-id",
			Ev::AnsSubDup => "duplicate-id",
			Ev::AbandonSub(_) => "abandoned",
			_ => continue,
		};
		if !tags.contains(&t) {
			tags.push(t);
		}
	}
	if tags.is_empty() { "no-subscription-ended".into() } else { tags.join("+") }
}

/// run `cycle` repeatedly on one client (fresh wire indices each round), return the table sizes after each round
fn repeat_cycle(cycle: &[Ev], reps: usize) -> Vec<[usize; 4]> {
	struct Rep {
		cycle: Vec<Ev>,
		reps: usize,
		out: Arc<Mutex<Vec<[usize; 4]>>>,
	}
	impl Scenario for Rep {
		type State = (Arc<Client>, Arc<Shared>);
		fn name(&self) -> String {
			"repeat".into()
		}
		fn config(&self) -> Value {
			json!({})
		}
		fn mask(&self) -> fn(&str) -> bool {
			mask
		}
		fn max_steps(&self) -> usize {
			100_000
		}
		fn setup(&self) -> Self::State {
			let shared = Arc::new(Shared { rx_split: false, fail_ping: false, fail_close: false,
				sent: Default::default(),
				send_calls: Default::default(),
				fail_send_at: None,
				wire_notify: Notify::new(),
				rxq: Default::default(),
				rx_notify: Notify::new(),
				tx_closed: Default::default(),
				tx_points: false,
			});
			let client: Client = ClientBuilder::default().request_timeout(Duration::from_secs(3600)).max_buffer_capacity_per_subscription(CAP).build_with_tokio(MockTx(shared.clone()), MockRx(shared.clone()));
			let client = Arc::new(client);
			let (c, s, cycle, reps, out) = (client.clone(), shared.clone(), self.cycle.clone(), self.reps, self.out.clone());
			tokio::spawn(async move {
				let last_wire = |s: &Shared| s.sent.lock().unwrap().last().and_then(|m| serde_json::from_str::<Value>(m).ok());
				let deliver = |s: &Shared, v: Value| s.push_rx(Ok(ReceivedMessage::Text(v.to_string())));
				let mut sub: Option<Subscription<Value>> = None;
				let mut handler: Option<Subscription<Value>> = None;
				let mut step = 0usize;
				for round in 0..reps {
					let sid = format!("S{round}");
					for ev in &cycle {
						step += 1;
						match ev {
							Ev::Call => {
								let c2 = c.clone();
								tokio::spawn(async move {
									let _ = c2.request::<Value, _>("c0", rpc_params![]).await;
								});
							}
							Ev::AnsCallOk | Ev::AnsSubErr(_) => {
								let m = last_wire(&s).unwrap();
								if *ev == Ev::AnsCallOk { deliver(&s, json!({"jsonrpc":"2.0","id": m["id"], "result": 1})) } else { deliver(&s, json!({"jsonrpc":"2.0","id": m["id"], "error": {"code": 1, "message": "no"}})) }
							}
							Ev::Batch => {
								let c2 = c.clone();
								tokio::spawn(async move {
									let mut b = BatchRequestBuilder::new();
									b.insert("b", rpc_params![0]).unwrap();
									let _ = c2.batch_request::<Value>(b).await;
								});
							}
							Ev::AnsBatch => {
								let m = last_wire(&s).unwrap();
								deliver(&s, Value::Array(m.as_array().unwrap().iter().map(|e| json!({"jsonrpc":"2.0","id": e["id"], "result": 1})).collect()));
							}
							Ev::Sub(_) => {
								let c2 = c.clone();
								let slot: Arc<Mutex<Option<Subscription<Value>>>> = Arc::new(Mutex::new(None));
								let slot2 = slot.clone();
								tokio::spawn(async move {
									if let Ok(x) = c2.subscribe::<Value, _>("sub", rpc_params![], "unsub").await {
										*slot2.lock().unwrap() = Some(x);
									}
								});
								// the handle is picked up after the acknowledgement
								SLOT.with(|s| *s.borrow_mut() = Some(slot));
							}
							Ev::AnsSubOk(_) => {
								let m = last_wire(&s).unwrap();
								deliver(&s, json!({"jsonrpc":"2.0","id": m["id"], "result": sid}));
							}
							Ev::Unsub(_) => {
								if let Some(x) = sub.take() {
									tokio::spawn(async move {
										let _ = x.unsubscribe().await;
									});
								}
							}
							Ev::DropSub(_) => drop(sub.take()),
							Ev::Lag(_) => {
								for _ in 0..=CAP {
									deliver(&s, json!({"jsonrpc":"2.0","method":"n","params":{"subscription": sid, "result":1}}));
								}
							}
							Ev::Close(_) => deliver(&s, json!({"jsonrpc":"2.0","method":"n","params":{"subscription": sid, "error":"bye"}})),
							Ev::AnsUnsub(_) => {
								if let Some(m) = last_wire(&s).filter(|m| m["method"] == "unsub") {
									deliver(&s, json!({"jsonrpc":"2.0","id": m["id"], "result": true}));
								}
							}
							Ev::Reg => {
								let c2 = c.clone();
								let slot: Arc<Mutex<Option<Subscription<Value>>>> = Arc::new(Mutex::new(None));
								let slot2 = slot.clone();
								tokio::spawn(async move {
									if let Ok(x) = c2.subscribe_to_method::<Value>("srv").await {
										*slot2.lock().unwrap() = Some(x);
									}
								});
								SLOT.with(|s| *s.borrow_mut() = Some(slot));
							}
							Ev::MethodNotif => deliver(&s, json!({"jsonrpc":"2.0","method":"srv","params":[1]})),
							Ev::Unreg => {
								if let Some(h) = handler.take() {
									tokio::spawn(async move {
										let _ = h.unsubscribe().await;
									});
								}
							}
							_ => {}
						}
						// let everything settle (one scheduling point at a time)
						sched::point(format!("settle:{step}")).await;
						if let Some(slot) = SLOT.with(|s| s.borrow().clone()) {
							if let Some(x) = slot.lock().unwrap().take() {
								if matches!(ev, Ev::AnsSubOk(_)) {
									sub = Some(x);
								} else if matches!(ev, Ev::Reg) {
									handler = Some(x);
								} else {
									*slot.lock().unwrap() = Some(x);
								}
							}
						}
					}
					// a handle still held after a server-side close / lag is given up before the next round
					drop(sub.take());
					sched::point(format!("settle-round:{round}")).await;
					out.lock().unwrap().push(c.verif_table_sizes());
				}
			});
			(client, shared)
		}
		fn judge(&self, _st: Self::State, _t: &[String], _p: &[String], _s: Status) -> Verdict {
			Verdict { violations: vec![], outcome: String::new() }
		}
	}
	thread_local! { static SLOT: std::cell::RefCell<Option<Arc<Mutex<Option<Subscription<Value>>>>>> = const { std::cell::RefCell::new(None) }; }
	SLOT.with(|s| *s.borrow_mut() = None);
	let out = Arc::new(Mutex::new(Vec::new()));
	let _ = sched::run_one(&Rep { cycle: cycle.to_vec(), reps, out: out.clone() }, &[], false);
	let v = out.lock().unwrap().clone();
	v
}

// ---------------------------------------------------------------------------------------------
// SCHED leg: a notification handler (or subscription) is dropped while the client's request queue is full, so the
// "unregister" message of Drop is lost; a later notification must make the client forget it.

pub struct DropUnderBackpressure {
	pub subscription: bool,
}

pub struct DbState {
	client: Arc<Client>,
	shared: Arc<Shared>,
}

fn mask_tx(l: &str) -> bool {
	!(l.starts_with("server:") || l.starts_with("client:"))
}

impl Scenario for DropUnderBackpressure {
	type State = DbState;
	fn name(&self) -> String {
		format!("cli_mem/drop-under-backpressure:{}", if self.subscription { "subscription" } else { "notification-handler" })
	}
	fn config(&self) -> Value {
		json!({"max_concurrent_requests": 1, "dropped": if self.subscription { "subscription" } else { "notification handler" }})
	}
	fn mask(&self) -> fn(&str) -> bool {
		mask_tx
	}
	fn setup(&self) -> DbState {
		let shared = Arc::new(Shared { rx_split: false, fail_ping: false, fail_close: false,
			sent: Default::default(),
			send_calls: Default::default(),
			fail_send_at: None,
			wire_notify: Notify::new(),
			rxq: Default::default(),
			rx_notify: Notify::new(),
			tx_closed: Default::default(),
			tx_points: true,
		});
		let client: Client = ClientBuilder::default()
			.request_timeout(Duration::from_secs(3600))
			.max_concurrent_requests(1)
			.max_buffer_capacity_per_subscription(CAP)
			.build_with_tokio(MockTx(shared.clone()), MockRx(shared.clone()));
		let client = Arc::new(client);
		// responder without scheduling points: answers everything that carries an id
		{
			let shared = shared.clone();
			tokio::spawn(async move {
				let mut k = 0;
				loop {
					shared.wait_sent(k).await;
					let m: Value = serde_json::from_str(&shared.sent_msg(k).unwrap()).unwrap_or(Value::Null);
					if m.get("id").is_some() {
						let res = if m["method"] == "sub" { json!("S") } else { json!(true) };
						shared.push_rx(Ok(ReceivedMessage::Text(json!({"jsonrpc":"2.0","id": m["id"], "result": res}).to_string())));
					}
					k += 1;
				}
			});
		}
		let is_sub = self.subscription;
		{
			let client = client.clone();
			let shared = shared.clone();
			tokio::spawn(async move {
				let handle: Subscription<Value> = if is_sub {
					client.subscribe("sub", rpc_params![], "unsub").await.expect("subscribe")
				} else {
					client.subscribe_to_method("srv").await.expect("register")
				};
				sched::log("ready");
				for i in 0..2 {
					let client = client.clone();
					tokio::spawn(async move {
						sched::point(format!("fe:call:{i}")).await;
						let r = client.request::<Value, _>("m", rpc_params![i as u64]).await;
						sched::log(format!("call:{i}:{}", r.is_ok()));
					});
				}
				tokio::spawn(async move {
					sched::point("fe:drop").await;
					drop(handle);
					sched::log("dropped");
					sched::point("env:late-notification").await;
					sched::log("late-notification");
					let msg = if is_sub {
						json!({"jsonrpc":"2.0","method":"n","params":{"subscription":"S","result":1}})
					} else {
						json!({"jsonrpc":"2.0","method":"srv","params":[1]})
					};
					shared.push_rx(Ok(ReceivedMessage::Text(msg.to_string())));
				});
			});
		}
		DbState { client, shared }
	}
	fn judge(&self, st: DbState, trace: &[String], panics: &[String], status: Status) -> Verdict {
		let mut v = Vec::new();
		if status != Status::Quiescent {
			v.push((format!("machinery:{status:?}"), format!("{status:?}")));
		}
		for p in panics {
			v.push(("panic".into(), p.clone()));
		}
		let sizes = st.client.verif_table_sizes();
		let late = trace.iter().any(|l| l == "late-notification");
		let what = if self.subscription { "subscription" } else { "notification-handler" };
		if late {
			// the application dropped it and a further notification for it arrived: it must be gone
			// (a dropped subscription may still await the acknowledgement of its unsubscribe call: the responder gives it)
			if sizes != [0, 0, 0, 0] {
				v.push((
					format!("dropped-{what}-retained"),
					format!("the {what} was dropped by the application (with the request queue possibly full) and a further notification for it arrived, but the tables still hold {sizes:?}"),
				));
			}
		}
		let _ = &st.shared;
		Verdict { violations: v, outcome: format!("{sizes:?}|late={late}") }
	}
}
