//! C03 — each client call completes with exactly the response bearing its own id (SCHED on CLI-MEM).

use crate::clim::{self, AnswerKind, CliScenarioCfg, CliState, EnvEvent, FeOp, OpStatus};
use crate::report::Reporter;
use crate::sched::{self, Scenario, Status, Verdict};
use jsonrpsee_core::client::IdKind;
use serde_json::{Value, json};
use std::time::Duration;

#[derive(Clone, Debug, PartialEq)]
pub enum Ans {
	Ok,
	Err,
	Omit,
	/// delivered twice (two independent environment events)
	Twice,
}

#[derive(Clone, Debug, PartialEq)]
pub enum Extra {
	/// a response whose id was never sent
	UnknownId,
	/// plain notification for a method nobody registered
	MethodNotif,
	/// subscription notification for an id nobody holds
	SubNotifUnknown,
	/// an array packing the answers to wire messages 0 and 1
	PackedPair,
	/// the server reuses subscription ids: every subscribe call is answered with the id "SX"
	ConstSubscriptionId,
	/// the reply to the batch (op 1) arrives in ONE array behind notifications for the unread subscription (op 0) that
	/// overflow its buffer
	NotifsThenBatchInOneArray,
	/// every message from the server carries this JSON whitespace before and after its text
	Framed(&'static str),
}

pub struct MatchScenario {
	pub id_kind: IdKind,
	pub ops: Vec<FeOp>,
	/// per wire message index
	pub answers: Vec<Ans>,
	pub extras: Vec<Extra>,
	pub lib_points: bool,
	/// scheduling points inside the transport's send (before the bytes leave / before send returns)
	pub tx_points: bool,
	/// the transport's receive() is not cancellation safe (point `rx:mid`) and the client's ping timer runs
	pub rx_split_ping_ms: Option<u64>,
	/// calls made (and answered) before the scenario proper, so that its ids start here
	pub warmup: usize,
	/// the library's loop points (send task, read task) and the transport points park only at their first occurrence:
	/// afterwards the tasks run several iterations back to back
	pub hold_once: bool,
}

fn mask_lib(l: &str) -> bool {
	l == "client:send_task:before_handle" || !(l.starts_with("server:") || l.starts_with("client:"))
}
fn mask_nolib(l: &str) -> bool {
	!(l.starts_with("server:") || l.starts_with("client:"))
}

impl MatchScenario {
	fn env(&self) -> Vec<EnvEvent> {
		let mut env = Vec::new();
		for (k, a) in self.answers.iter().enumerate() {
			match a {
				Ans::Ok if self.extras.contains(&Extra::ConstSubscriptionId) => env.push(EnvEvent::Answer { msg: self.warmup + k, kind: AnswerKind::OkConstSub }),
				Ans::Ok => env.push(EnvEvent::Answer { msg: self.warmup + k, kind: AnswerKind::Ok }),
				Ans::Err => env.push(EnvEvent::Answer { msg: self.warmup + k, kind: AnswerKind::Err }),
				Ans::Omit => {}
				Ans::Twice => {
					env.push(EnvEvent::Answer { msg: self.warmup + k, kind: AnswerKind::Ok });
					env.push(EnvEvent::Answer { msg: self.warmup + k, kind: AnswerKind::Ok });
				}
			}
		}
		if self.extras.contains(&Extra::NotifsThenBatchInOneArray) {
			// ops = [SubscribeHold, Batch(n)]: the subscribe (wire 0) is answered as usual, the batch (wire 1) only inside the array
			env.retain(|e| !matches!(e, EnvEvent::Answer { msg, .. } if *msg == self.warmup + 1));
			env.push(EnvEvent::PackedNotifsAndBatch { sub_msg: self.warmup, batch_msg: self.warmup + 1, notifs: 6 });
		}
		for e in &self.extras {
			let idtxt = |n: u64| if matches!(self.id_kind, IdKind::String) { format!("\"{n}\"") } else { n.to_string() };
			match e {
				Extra::UnknownId => env.push(EnvEvent::Raw { after: 1, text: format!(r#"{{"jsonrpc":"2.0","id":{},"result":"stray"}}"#, idtxt(77)) }),
				Extra::MethodNotif => env.push(EnvEvent::Raw { after: 0, text: r#"{"jsonrpc":"2.0","method":"server_says","params":["stray-notif"]}"#.into() }),
				Extra::SubNotifUnknown => env.push(EnvEvent::Raw { after: 0, text: r#"{"jsonrpc":"2.0","method":"n","params":{"subscription":"nobody","result":"stray-sub"}}"#.into() }),
				Extra::NotifsThenBatchInOneArray | Extra::ConstSubscriptionId | Extra::Framed(_) => {}
				Extra::PackedPair => env.push(EnvEvent::Raw {
					after: 2,
					text: format!(r#"[{{"jsonrpc":"2.0","id":{},"result":"packed0"}},{{"jsonrpc":"2.0","id":{},"result":"packed1"}}]"#, idtxt(0), idtxt(1)),
				}),
			}
		}
		env
	}
}

impl Scenario for MatchScenario {
	type State = CliState;
	fn name(&self) -> String {
		format!("cli_mem/match:{:?}:{:?}:{:?}:{:?}:{}{}", self.id_kind, self.ops, self.answers, self.extras, if self.lib_points { "lib" } else { "nolib" }, if self.tx_points { ":txpoints" } else { "" })
			+ &self.rx_split_ping_ms.map_or(String::new(), |ms| format!(":rxsplit-ping{ms}ms"))
			+ &(if self.warmup > 0 { format!(":warmup{}", self.warmup) } else { String::new() })
			+ if self.hold_once { ":hold-once" } else { "" }
	}
	fn config(&self) -> Value {
		json!({"id_kind": format!("{:?}", self.id_kind), "ops": format!("{:?}", self.ops), "answers": format!("{:?}", self.answers), "extras": format!("{:?}", self.extras),
			"receive_not_cancel_safe_and_ping_ms": self.rx_split_ping_ms, "warmup_calls": self.warmup})
	}
	fn mask(&self) -> fn(&str) -> bool {
		if self.lib_points { mask_lib } else { mask_nolib }
	}
	fn once_labels(&self) -> &'static [&'static str] {
		if self.hold_once { &["client:send_task:before_handle", "tx:send", "tx:send:returning"] } else { &[] }
	}
	fn setup(&self) -> CliState {
		clim::setup(&CliScenarioCfg { request_timeout_ms: None, frame_ws: self.extras.iter().find_map(|e| if let Extra::Framed(w) = e { Some(*w) } else { None }).unwrap_or(""), fail_close: false, ws_builder: None, rx_split: self.rx_split_ping_ms.is_some(), ping_ms: self.rx_split_ping_ms, send_ping_ms: None, fail_ping: false, warmup: self.warmup, id_kind: self.id_kind, ops: self.ops.clone(), env: self.env(), fail_send_at: None, tx_points: self.tx_points, buffer_cap: 4, late_after: if self.ops.contains(&FeOp::LateSubscribe) { 1 } else { 0 } })
	}
	fn judge(&self, st: CliState, _trace: &[String], panics: &[String], status: Status) -> Verdict {
		let mut v = Vec::new();
		let l = st.log.lock().unwrap();
		let sent = st.shared.sent.lock().unwrap().clone();
		if status != Status::Quiescent {
			v.push((format!("machinery:{status:?}"), format!("{status:?}")));
		}
		for p in panics {
			v.push(("panic".into(), format!("a client task panicked: {p}")));
		}
		if let Err(e) = clim::wire_wellformed(&sent) {
			v.push(("client-emits-invalid-jsonrpc".into(), e));
		}
		// was an event delivered that makes the client abandon the connection?
		let abandoning = |txt: &str| txt.contains("stray\"") || txt.contains("packed0");
		let mut seen_answers: std::collections::HashMap<String, usize> = Default::default();
		let mut abandon_pos: Option<usize> = None;
		for (_, pos, txt) in l.deliveries.iter() {
			let c = seen_answers.entry(txt.clone()).or_insert(0);
			*c += 1;
			let dup = *c > 1 && txt.contains("\"id\"");
			if (abandoning(txt) || dup) && abandon_pos.map_or(true, |p| *pos < p) {
				abandon_pos = Some(*pos);
			}
		}
		let mut outcome = Vec::new();
		for (i, op) in self.ops.iter().enumerate() {
			let k = clim::wire_index_of(&sent, op, i);
			let delivered: Vec<(usize, String)> = match k {
				Some(k) => {
					let okt = clim::answer_for(&sent[k], k, if self.extras.contains(&Extra::ConstSubscriptionId) { &AnswerKind::OkConstSub } else { &AnswerKind::Ok });
					let ert = clim::answer_for(&sent[k], k, &AnswerKind::Err);
					// a batch reply may also arrive at the end of a longer array (behind notifications)
					let tail = if okt.starts_with('[') { format!(",{}", &okt[1..]) } else { "\u{0}".to_string() };
					l.deliveries.iter().filter(|(_, _, t)| *t == okt || *t == ert || t.ends_with(&tail)).map(|(_, p, t)| (*p, t.clone())).collect()
				}
				None => vec![],
			};
			let opk = match op {
				FeOp::Batch(_) => "batch".to_string(),
				o => format!("{o:?}").to_lowercase(),
			};
			match &l.status[i] {
				OpStatus::NotStarted => outcome.push("ns".to_string()),
				OpStatus::Pending => {
					outcome.push("pending".into());
					if !delivered.is_empty() && abandon_pos.is_none() {
						v.push((format!("answered-but-pending:{opk}"), format!("op #{i} ({op:?}) is still pending although its answer {:?} was delivered", delivered[0].1)));
					}
				}
				OpStatus::Ok(r) => {
					outcome.push(format!("ok:{r}"));
					if *op == FeOp::Notif {
						// a notification future completes once the message is queued; nothing to match
						continue;
					}
					if *op == FeOp::AbandonCall && r == "abandoned" {
						// the application dropped the future; whatever arrives later for it must not disturb anyone else
						continue;
					}
					let Some(k) = k else {
						v.push((format!("completed-without-request:{opk}"), format!("op #{i} completed with {r} but never put a request on the wire")));
						continue;
					};
					let expected = match op {
						FeOp::Call | FeOp::LateCall | FeOp::AbandonCall | FeOp::CallPolledLate => format!("\"r{k}\""),
						FeOp::Subscribe | FeOp::SubscribeDrop | FeOp::SubscribeHold | FeOp::LateSubscribe if self.extras.contains(&Extra::ConstSubscriptionId) => "Subscription(Str(\"SX\"))".to_string(),
						FeOp::Subscribe | FeOp::SubscribeDrop | FeOp::SubscribeHold | FeOp::LateSubscribe => format!("Subscription(Str(\"S{k}\"))"),
						FeOp::Batch(n) | FeOp::LateBatch(n) | FeOp::BatchStr(n) => format!("[{}]", (0..*n).map(|j| format!("\"r{k}.{j}\"")).collect::<Vec<_>>().join(",")),
						FeOp::Notif | FeOp::RegisterNotif | FeOp::NotifBurst(_) => "sent".into(),
					};
					// batch summaries carry `#s..f..o..` after the entry list; C03 compares the entries
					let r_full = r.clone();
					let r = &r_full.split('#').next().unwrap_or("").to_string();
					let expected_err = match op {
						FeOp::Batch(n) => Some(format!("[{}]", (0..*n).map(|_| format!("E{}", 1000 + k)).collect::<Vec<_>>().join(","))),
						_ => None,
					};
					if expected_err.as_ref() == Some(r) {
						// a batch whose entries were all answered with error objects
						let done = l.done_pos[i].unwrap_or(usize::MAX);
						if !delivered.iter().any(|(p, t)| *p <= done && t.contains("error")) {
							v.push((format!("completed-before-answer:{opk}"), format!("op #{i} completed with {r} before its (error) answer was delivered")));
						}
					} else if *op != FeOp::Notif {
						if *r != expected {
							v.push((format!("wrong-response:{opk}"), format!("op #{i} ({op:?}, wire message #{k}: {}) completed with {r}; the response carrying its id holds {expected}", sent[k])));
						}
						let done = l.done_pos[i].unwrap_or(usize::MAX);
						if !delivered.iter().any(|(p, t)| *p <= done && t.contains("result")) {
							v.push((format!("completed-before-answer:{opk}"), format!("op #{i} completed with {r} before (or without) its answer being delivered")));
						}
					}
				}
				OpStatus::Err(e) => {
					outcome.push(format!("err:{}", e.chars().take(40).collect::<String>()));
					let call_err = k.map(|k| format!("code: ServerError({})", 1000 + k));
					if e.contains("RestartNeeded") {
						if abandon_pos.is_none() {
							v.push((format!("disconnected-without-cause:{opk}"), format!("op #{i} failed with {e} although the server sent nothing that matches no pending request")));
						}
					} else if let Some(ce) = call_err.filter(|c| e.contains(c.as_str())) {
						let done = l.done_pos[i].unwrap_or(usize::MAX);
						if !delivered.iter().any(|(p, t)| *p <= done && t.contains("error")) {
							v.push((format!("wrong-error:{opk}"), format!("op #{i} failed with {ce} but its error answer was not delivered before")));
						}
					} else {
						v.push((format!("wrong-error:{opk}"), format!("op #{i} ({op:?}) failed with {e}, which is not the error its own response carried")));
					}
				}
			}
		}
		outcome.push(format!("abandon={}", abandon_pos.is_some()));
		Verdict { violations: v, outcome: outcome.join("|") }
	}
}

/// A call whose answer comes in while the application's task is busy: the call future is polled once, then - wherever
/// the scheduler decides - the task waits (in real time) until the request timeout has expired and only then awaits the
/// future. If the answer had been delivered, and taken by the client's read task, in good time, the call completes with
/// it: a response that arrived is not replaced by a timeout error.
pub struct LatePollScenario {
	pub id_kind: IdKind,
	/// a second, ordinary call next to it
	pub with_other_call: bool,
}

const LATE_POLL_TIMEOUT_MS: u64 = 300;

impl Scenario for LatePollScenario {
	type State = CliState;
	fn name(&self) -> String {
		format!("cli_mem/late-poll:{:?}:{}", self.id_kind, if self.with_other_call { "with-other-call" } else { "alone" })
	}
	fn config(&self) -> Value {
		json!({"id_kind": format!("{:?}", self.id_kind), "request_timeout_real_ms": LATE_POLL_TIMEOUT_MS, "second_call": self.with_other_call})
	}
	fn mask(&self) -> fn(&str) -> bool {
		mask_nolib
	}
	fn setup(&self) -> CliState {
		let mut ops = vec![FeOp::CallPolledLate];
		let mut env = vec![EnvEvent::Answer { msg: 0, kind: AnswerKind::Ok }];
		if self.with_other_call {
			ops.push(FeOp::Call);
			env.push(EnvEvent::Answer { msg: 1, kind: AnswerKind::Ok });
		}
		clim::setup(&CliScenarioCfg { request_timeout_ms: Some(LATE_POLL_TIMEOUT_MS), frame_ws: "", fail_close: false, ws_builder: None, rx_split: false, ping_ms: None, send_ping_ms: None, fail_ping: false, warmup: 0, id_kind: self.id_kind, ops, env, fail_send_at: None, tx_points: false, buffer_cap: 4, late_after: 0 })
	}
	fn judge(&self, st: CliState, _trace: &[String], panics: &[String], status: Status) -> Verdict {
		let mut v = Vec::new();
		let l = st.log.lock().unwrap();
		let sent = st.shared.sent.lock().unwrap().clone();
		if status != Status::Quiescent {
			v.push((format!("machinery:{status:?}"), format!("{status:?}")));
		}
		for p in panics {
			v.push(("panic".into(), format!("a client task panicked: {p}")));
		}
		let mut outcome = Vec::new();
		let k = clim::wire_index_of(&sent, &FeOp::CallPolledLate, 0);
		let answer_pos = k.and_then(|k| {
			let okt = clim::answer_for(&sent[k], k, &AnswerKind::Ok);
			l.deliveries.iter().find(|(_, _, t)| *t == okt).map(|(_, p, _)| *p)
		});
		let late = l.late_polls.iter().find(|(i, _, _)| *i == 0).copied();
		match (&l.status[0], late, answer_pos, k) {
			(OpStatus::Ok(r), _, Some(_), Some(k)) => {
				outcome.push("late-call:ok".to_string());
				if *r != format!("\"r{k}\"") {
					v.push(("wrong-response:late-polled-call".into(), format!("the late-polled call completed with {r}, its response holds \"r{k}\"")));
				}
			}
			(OpStatus::Ok(r), _, None, _) => v.push(("completed-before-answer:late-polled-call".into(), format!("the late-polled call completed with {r} although no answer was delivered"))),
			(OpStatus::Err(e), Some((_, wait_pos, waited_ms)), Some(ap), _) if ap < wait_pos && (waited_ms as u64) < LATE_POLL_TIMEOUT_MS / 2 => {
				outcome.push("late-call:err-although-answered".to_string());
				v.push((
					"answered-in-time-but-failed:late-polled-call".into(),
					format!("the answer to the call was delivered and taken by the read task {waited_ms} ms after the call was made (request timeout {LATE_POLL_TIMEOUT_MS} ms); the application awaited the call after the deadline and got {e} instead of the response"),
				));
			}
			(OpStatus::Err(e), _, _, _) => {
				// the answer came after the deadline had (or may have) passed: a timeout is the right outcome
				outcome.push(if e.contains("RequestTimeout") { "late-call:timeout".to_string() } else { format!("late-call:err:{}", e.chars().take(30).collect::<String>()) });
				if !e.contains("RequestTimeout") {
					v.push(("wrong-error:late-polled-call".into(), format!("the late-polled call failed with {e}")));
				}
			}
			(other, _, _, _) => outcome.push(format!("late-call:{other:?}")),
		}
		if self.with_other_call {
			let k1 = clim::wire_index_of(&sent, &FeOp::Call, 1);
			match (&l.status[1], k1) {
				(OpStatus::Ok(r), Some(k1)) if *r == format!("\"r{k1}\"") => outcome.push("other:ok".into()),
				// its own deadline (the same real 300 ms) may pass while the late-polled call's task blocks the thread
				(OpStatus::Err(e), _) if e.contains("RequestTimeout") => outcome.push("other:timeout".into()),
				(s, _) => {
					outcome.push(format!("other:{s:?}"));
					v.push(("other-call-disturbed".into(), format!("the ordinary call next to the late-polled one ended as {s:?}")));
				}
			}
		}
		Verdict { violations: v, outcome: outcome.join("|") }
	}
}

pub fn late_poll_scenarios() -> Vec<LatePollScenario> {
	let mut v = Vec::new();
	for id_kind in [IdKind::Number, IdKind::String] {
		v.push(LatePollScenario { id_kind, with_other_call: false });
	}
	v.push(LatePollScenario { id_kind: IdKind::Number, with_other_call: true });
	v
}

pub fn scenarios(thorough: bool) -> Vec<MatchScenario> {
	let mut out = Vec::new();
	let op_sets: Vec<Vec<FeOp>> = if thorough {
		vec![
			vec![FeOp::Call, FeOp::Call],
			vec![FeOp::Call, FeOp::Call, FeOp::Call],
			vec![FeOp::Call, FeOp::Subscribe],
			vec![FeOp::Call, FeOp::Batch(2)],
			vec![FeOp::Batch(2), FeOp::Batch(2)],
			vec![FeOp::Subscribe, FeOp::Subscribe],
			vec![FeOp::Subscribe, FeOp::Batch(2), FeOp::Call],
			vec![FeOp::Call, FeOp::Notif, FeOp::Call],
		]
	} else {
		vec![vec![FeOp::Call, FeOp::Call], vec![FeOp::Call, FeOp::Call, FeOp::Call], vec![FeOp::Call, FeOp::Subscribe], vec![FeOp::Call, FeOp::Batch(2)], vec![FeOp::Subscribe, FeOp::Batch(2), FeOp::Call]]
	};
	for ops in op_sets {
		let n = ops.len();
		// answer patterns: all ok; each single position err / omit / twice
		let mut patterns: Vec<Vec<Ans>> = vec![vec![Ans::Ok; n]];
		for p in 0..n {
			for a in [Ans::Err, Ans::Omit, Ans::Twice] {
				let mut x = vec![Ans::Ok; n];
				x[p] = a;
				patterns.push(x);
			}
		}
		let extra_sets: Vec<Vec<Extra>> = vec![vec![], vec![Extra::MethodNotif, Extra::SubNotifUnknown], vec![Extra::UnknownId], vec![Extra::PackedPair]];
		for pat in &patterns {
			for ex in &extra_sets {
				// keep the product moderate: extras only with the all-ok pattern and the first non-ok ones
				if !ex.is_empty() && pat.iter().filter(|a| **a != Ans::Ok).count() > 0 && !thorough {
					continue;
				}
				// a packed pair with ids 0 and 1 is a legitimate answer to a batch holding exactly those ids
				if ex.contains(&Extra::PackedPair) && ops.iter().any(|o| matches!(o, FeOp::Batch(_))) {
					continue;
				}
				for id_kind in [IdKind::Number, IdKind::String] {
					out.push(MatchScenario { id_kind, ops: ops.clone(), answers: pat.clone(), extras: ex.clone(), lib_points: thorough, tx_points: false, rx_split_ping_ms: None, warmup: 0, hold_once: false });
				}
			}
		}
	}
	// (a) the answer may overtake the return of the transport's send; (b) a caller abandons its call
	for id_kind in [IdKind::Number, IdKind::String] {
		for ops in [vec![FeOp::Call], vec![FeOp::Call, FeOp::Call], vec![FeOp::Call, FeOp::Subscribe], vec![FeOp::Batch(2), FeOp::Call]] {
			let n = ops.len();
			out.push(MatchScenario { id_kind, ops, answers: vec![Ans::Ok; n], extras: vec![], lib_points: thorough, tx_points: true, rx_split_ping_ms: None, warmup: 0, hold_once: false });
		}
		for ops in [vec![FeOp::AbandonCall, FeOp::Call], vec![FeOp::AbandonCall, FeOp::Subscribe], vec![FeOp::AbandonCall, FeOp::AbandonCall, FeOp::Call]] {
			let n = ops.len();
			out.push(MatchScenario { id_kind, ops: ops.clone(), answers: vec![Ans::Ok; n], extras: vec![], lib_points: false, tx_points: false, rx_split_ping_ms: None, warmup: 0, hold_once: false });
			let mut a = vec![Ans::Ok; n];
			a[0] = Ans::Err;
			out.push(MatchScenario { id_kind, ops, answers: a, extras: vec![], lib_points: false, tx_points: false, rx_split_ping_ms: None, warmup: 0, hold_once: false });
		}
	}
	// (h) two batches in flight whose id ranges nest (a batch of n takes one id from the counter and writes n consecutive
	//     ids, so the next batch starts inside the previous range): replies in every order
	for id_kind in [IdKind::Number, IdKind::String] {
		for ops in [vec![FeOp::Batch(3), FeOp::Batch(2)], vec![FeOp::Batch(2), FeOp::Batch(2), FeOp::Call]] {
			if !thorough && ops.len() > 2 && matches!(id_kind, IdKind::String) {
				continue;
			}
			let n = ops.len();
			out.push(MatchScenario { id_kind, ops, answers: vec![Ans::Ok; n], extras: vec![], lib_points: false, tx_points: false, rx_split_ping_ms: None, warmup: 0, hold_once: false });
		}
	}
	// (g) the send task / transport held back once, then running back to back (once-only points)
	for id_kind in [IdKind::Number, IdKind::String] {
		for ops in [vec![FeOp::Call, FeOp::Call, FeOp::Call], vec![FeOp::Call, FeOp::Batch(2), FeOp::Subscribe], vec![FeOp::AbandonCall, FeOp::Call, FeOp::Call]] {
			if !thorough && matches!(id_kind, IdKind::String) {
				continue;
			}
			let n = ops.len();
			out.push(MatchScenario { id_kind, ops, answers: vec![Ans::Ok; n], extras: vec![], lib_points: true, tx_points: true, rx_split_ping_ms: None, warmup: 0, hold_once: true });
		}
	}
	// (c) a transport whose receive() is not cancellation safe (as the WebSocket transport's is not) while the read task's
	//     other branches (ping timer) fire: an arrived response must not be lost
	for id_kind in [IdKind::Number, IdKind::String] {
		for ops in [vec![FeOp::Call, FeOp::Call], vec![FeOp::Call, FeOp::Subscribe], vec![FeOp::Batch(2), FeOp::Call]] {
			if !thorough && (ops.len() > 2 || matches!(id_kind, IdKind::String)) && ops[1] != FeOp::Call {
				continue;
			}
			let n = ops.len();
			for ms in if thorough { vec![1, 2, 3] } else { vec![2] } {
				out.push(MatchScenario { id_kind, ops: ops.clone(), answers: vec![Ans::Ok; n], extras: vec![], lib_points: false, tx_points: false, rx_split_ping_ms: Some(ms), warmup: 0, hold_once: false });
			}
		}
	}
	// (f) a server that reuses subscription ids: subscribe, drop (the unsubscribe goes out), subscribe again; the new
	//     subscribe is answered with the old id before or after the unsubscribe is acknowledged
	for id_kind in [IdKind::Number, IdKind::String] {
		// wire: 0 subscribe, 1 unsubscribe, 2 second subscribe; answers to all three, in every order the schedule allows
		out.push(MatchScenario { id_kind, ops: vec![FeOp::SubscribeDrop, FeOp::LateSubscribe], answers: vec![Ans::Ok, Ans::Ok, Ans::Ok], extras: vec![Extra::ConstSubscriptionId], lib_points: false, tx_points: false, rx_split_ping_ms: None, warmup: 0, hold_once: false });
		out.push(MatchScenario { id_kind, ops: vec![FeOp::SubscribeDrop, FeOp::LateSubscribe], answers: vec![Ans::Ok, Ans::Omit, Ans::Ok], extras: vec![Extra::ConstSubscriptionId], lib_points: false, tx_points: false, rx_split_ping_ms: None, warmup: 0, hold_once: false });
	}
	// (h) two batches in flight with nested id ranges, (f) a server that reuses a subscription id for a new subscribe while the unsubscribe of the old one is unacknowledged, (e) a batch reply packed into one array behind notifications that overflow an unread subscription
	for id_kind in [IdKind::Number, IdKind::String] {
		for n in if thorough { vec![1usize, 2, 3] } else { vec![2] } {
			out.push(MatchScenario { id_kind, ops: vec![FeOp::SubscribeHold, FeOp::Batch(n)], answers: vec![Ans::Ok, Ans::Ok], extras: vec![Extra::NotifsThenBatchInOneArray], lib_points: false, tx_points: false, rx_split_ping_ms: None, warmup: 0, hold_once: false });
		}
	}
	// (d) ids that cross a power of ten (string ids compare lexicographically: "10" < "9")
	for id_kind in [IdKind::Number, IdKind::String] {
		for warmup in if thorough { vec![7, 8, 9, 10, 98, 99] } else { vec![8, 9] } {
			for ops in [vec![FeOp::Batch(3)], vec![FeOp::Batch(2), FeOp::Call]] {
				let n = ops.len();
				out.push(MatchScenario { id_kind, ops, answers: vec![Ans::Ok; n], extras: vec![], lib_points: false, tx_points: false, rx_split_ping_ms: None, warmup, hold_once: false });
			}
		}
	}
	// messages framed with JSON whitespace (CR LF framing, pretty-printing proxies): responses, batch arrays and
	// subscription traffic are recognised behind any of the four JSON whitespace characters
	for ws in [" ", "\t", "\n", "\r", "\r\n", "\n \t\r"] {
		for id_kind in [IdKind::Number, IdKind::String] {
			for ops in [vec![FeOp::Call, FeOp::Call], vec![FeOp::Batch(2), FeOp::Call], vec![FeOp::Subscribe, FeOp::Call]] {
				let n = ops.len();
				out.push(MatchScenario { id_kind, ops, answers: vec![Ans::Ok; n], extras: vec![Extra::Framed(ws)], lib_points: false, tx_points: false, rx_split_ping_ms: None, warmup: 0, hold_once: false });
			}
		}
	}
	out
}

pub fn check(rep: &Reporter) {
	let thorough = rep.tier.thorough();
	rep.set_rule(
		"front-end histories of 2–3 concurrent operations out of {request, subscribe, batch of 2, notification} × answer pattern per wire message {ok, error object, omitted, delivered twice} × extra server messages {none, method + unknown-subscription notifications, response with a never-sent id, array packing two single responses} × id kind {number, string}; every front-end start and every delivery is a scheduling point, so all permutations of answers and all interleavings with late-starting calls are schedules of the DFS; complete tree when ≤ cap executions, else all schedules with ≤ K deviations. plus (c) a transport whose receive() is not cancellation safe (one more await after taking the message) while the read task's inactivity timer ticks every 1–3 virtual ms, and (h) two batches in flight with nested id ranges, (f) a server that reuses a subscription id for a new subscribe while the unsubscribe of the old one is unacknowledged, (e) a batch reply packed into one array behind notifications overflowing an unread subscription, and (d) batches whose ids start at 8/9 (thorough 7–10, 98, 99) after a warm-up, both id kinds. Oracle: the value each future returns is the payload of the delivered message whose id equals the id found in that call's own wire bytes.",
	);
	rep.assume("answers are tagged with the index of the wire message they answer, so 'own response' is decidable from bytes alone");
	let scen = scenarios(thorough);
	for s in &scen {
		sched::explore_auto(s, rep, if thorough { 300_000 } else { 6_000 }, if thorough { 3 } else { 2 }, if thorough { 10 } else { 50 }, Duration::from_secs(if thorough { 120 } else { 5 }));
	}
	// the real-time leg: a call awaited only after its deadline (every position of the scheduler's release relative to the
	// delivery of the answer; each execution waits for the deadline in real time, so these few trees are small)
	rep.assume("late-poll leg: the request timeout is real time (300 ms); a case counts only when the answer was taken by the read task within half of it, measured per execution");
	for s in late_poll_scenarios() {
		sched::explore_auto(&s, rep, 2_000, 3, 1_000_000, Duration::from_secs(60));
	}
}

pub fn dyn_scenarios() -> Vec<Box<dyn sched::DynScenario>> {
	let mut v: Vec<Box<dyn sched::DynScenario>> = Vec::new();
	for s in scenarios(true) {
		v.push(Box::new(s));
	}
	for s in scenarios(false) {
		v.push(Box::new(s));
	}
	for s in late_poll_scenarios() {
		v.push(Box::new(s));
	}
	v
}
