//! C08 — no response payload above max_response_body_size is ever sent (ENUM; differential against an unlimited server).

use super::srvref;
use crate::par::par_for;
use crate::report::{Local, Reporter};
use crate::srv;
use jsonrpsee_core::server::{BatchResponseBuilder, MethodResponse, ResponsePayload};
use jsonrpsee_types::Id;
use serde_json::{Value, json};
use std::collections::HashMap;

const IDS: [&str; 3] = ["1", "18446744073709551615", "\"a-string-id\""];
const METHODS: [&str; 3] = ["blob", "blob_err", "blob_blocking"];
const KINDS: [u8; 5] = [0, 1, 2, 3, 4];
const NMAX: usize = 700;

fn call_text(method: &str, id: &str, kind: u8, n: usize) -> String {
	format!(r#"{{"jsonrpc":"2.0","id":{id},"method":"{method}","params":[{kind},{n}]}}"#)
}

fn limits(thorough: bool) -> Vec<u32> {
	let mut v: Vec<u32> = (40..=260).step_by(if thorough { 1 } else { 1 }).collect();
	v.extend([1024, 65536]);
	if thorough {
		v.extend(261..=600);
		v.extend([2048, 4096, 10_000]);
	}
	v
}

fn cfg(l: u32) -> jsonrpsee_server::ServerConfig {
	srv::cfg_builder().max_response_body_size(l).build()
}

fn fixed_error(reply: &[u8]) -> Option<i64> {
	let v: Value = serde_json::from_slice(reply).ok()?;
	let c = v.get("error")?.get("code")?.as_i64()?;
	if c == -32008 || c == -32011 { Some(c) } else { None }
}

fn class_of(kind: u8) -> &'static str {
	["ascii", "escaped", "utf8-2byte", "utf8-4byte", "control"][kind as usize]
}

pub fn check(rep: &Reporter) {
	let thorough = rep.tier.thorough();
	rep.set_rule(
		"limits L = 40..260 in steps of 1 (thorough to 600, plus 2048/4096/10000) ∪ {1024, 65536}; for each L and each of 45 response shapes (sync result / async error-with-data / blocking result × ASCII / needs-escaping / 2-byte / 4-byte UTF-8 / control characters × id width 1 / 20 digits / string) every handler payload size whose unlimited reply is within L±3 (thorough ±6) bytes, plus 0 and a far-too-big one, over HTTP and WebSocket (TowerService), for limits on a stride (17, thorough 5) and sizes within L±1 also against Server::start over loopback TCP as HTTP/1.1, WebSocket and HTTP/2, and for limits on a stride of 7 also through http::call_with_service_builder and ws::connect with a request limit above resp. below the response limit; batches of 1..4 (thorough 6) entries whose array length is L−2…L+2 (thorough ±4) with the adjustable entry at every position, all valid calls or with one other entry (last / middle / first) replaced by a non-request (`17`, an object without method); WebSocket subscribe calls whose response carries a subscription id of controlled width (response length L−2…L+2); plus the full 1-step sweep of MethodResponse::response and BatchResponseBuilder. Oracle: the reply of a server with the limit disabled; every frame on the wire is ≤ L bytes or one of the two fixed errors; the handler log is the same with and without the limit. Distinct by (L, shape, size, transport).",
	);
	rep.assume("the 'fixed small too-big error itself' (-32008 / -32011) may exceed L, as the statement says");

	// ---- unlimited replies: (method, id, kind, n) -> reply bytes
	let rt = srv::rt();
	let mut unl: HashMap<(usize, usize, usize, usize), Vec<u8>> = HashMap::new();
	{
		let _e = rt.enter();
		let mut svc = srv::http_service(cfg(u32::MAX));
		for (mi, m) in METHODS.iter().enumerate() {
			for (ii, id) in IDS.iter().enumerate() {
				for (ki, k) in KINDS.iter().enumerate() {
					for n in 0..=NMAX {
						let o = rt.block_on(srvref::http_roundtrip(&mut svc, call_text(m, id, *k, n).as_bytes()));
						assert!(o.replies.len() == 1, "unlimited server must answer");
						unl.insert((mi, ii, ki, n), o.replies[0].clone());
					}
				}
			}
		}
	}
	let lims = limits(thorough);
	rep.extra("limits", json!(lims.len()));
	let shapes: Vec<(usize, usize, usize)> = (0..METHODS.len()).flat_map(|m| (0..IDS.len()).flat_map(move |i| (0..KINDS.len()).map(move |k| (m, i, k)))).collect();

	// ---- single calls
	let work: Vec<(u32, usize)> = lims.iter().flat_map(|l| (0..shapes.len()).map(move |s| (*l, s))).collect();
	par_for(rep, work.len(), 4, srv::rt, |i, rt, local: &mut Local| {
		let (l, si) = work[i];
		let (mi, ii, ki) = shapes[si];
		let _e = rt.enter();
		let mut http = srv::http_service(cfg(l));
		let ws = srv::ws_server(cfg(l));
		let window = if thorough { 6 } else { 3 };
		let mut ns: Vec<usize> = (0..=NMAX).filter(|n| (unl[&(mi, ii, ki, *n)].len() as i64 - l as i64).abs() <= window).collect();
		ns.push(0);
		ns.push(NMAX);
		ns.dedup();
		for n in ns {
			let text = call_text(METHODS[mi], IDS[ii], KINDS[ki], n);
			let want = &unl[&(mi, ii, ki, n)];
			for tname in ["http", "ws"] {
				let o = if tname == "http" { rt.block_on(srvref::http_roundtrip(&mut http, text.as_bytes())) } else { rt.block_on(srvref::ws_roundtrip(&ws, text.as_bytes())) };
				let case = json!({"engine":"ENUM","part":"single","limit": l, "transport": tname, "request": text, "unlimited_reply_len": want.len(),
					"replies": o.replies.iter().map(|r| String::from_utf8_lossy(r).to_string()).collect::<Vec<_>>()});
				let feat = format!("{}:{}", METHODS[mi], class_of(KINDS[ki]));
				if o.replies.len() != 1 {
					rep.violation(&format!("single:reply-count:{tname}:{feat}"), &format!("L={l}: {} replies to {text}", o.replies.len()), case.clone());
					continue;
				}
				let got = &o.replies[0];
				let fits = want.len() <= l as usize;
				let class;
				if fits {
					class = "fits";
					if got != want {
						let rel = (want.len() as i64 - l as i64).clamp(-4, 4);
						rep.violation(
							&format!("single:fitting-reply-changed:{tname}:{feat}:len=limit{rel:+}"),
							&format!("L={l}: the unlimited reply has {} bytes (≤ L) but the limited server sent {:?}", want.len(), String::from_utf8_lossy(got)),
							case.clone(),
						);
					}
				} else {
					class = "too-big";
					let v: Value = serde_json::from_slice(got).unwrap_or(Value::Null);
					let idv: Value = serde_json::from_str(IDS[ii]).unwrap();
					if v["error"]["code"] != -32008 || v["id"] != idv {
						let rel = (want.len() as i64 - l as i64).clamp(-4, 4);
						rep.violation(
							&format!("single:oversized-not-replaced:{tname}:{feat}:len=limit{rel:+}"),
							&format!("L={l}: the reply would have {} bytes (> L) but the server sent {:?}", want.len(), String::from_utf8_lossy(got)),
							case.clone(),
						);
					}
				}
				if got.len() > l as usize && fixed_error(got).is_none() {
					rep.violation(&format!("wire:frame-above-limit:{tname}:{feat}"), &format!("L={l}: a {}-byte reply was sent", got.len()), case.clone());
				}
				let exp_handlers = vec![METHODS[mi].to_string()];
				if o.handlers != exp_handlers {
					rep.violation(&format!("limit-changes-acceptance:{tname}:{feat}"), &format!("L={l}: handlers run {:?}, expected {exp_handlers:?}", o.handlers), case.clone());
				}
				local.case_unique(&format!("single:{tname}:{class}"));
				if i % 613 == 0 && tname == "ws" {
					rep.sample(case);
				}
			}
		}
	});

	// ---- SRV-TCP: the same single calls against `Server::start` over loopback (the accept loop builds the per-connection
	//      service itself), as HTTP/1.1, WebSocket and HTTP/2; limits on a stride, every shape, sizes within L±1
	{
		let twork: Vec<(u32, usize)> = lims.iter().filter(|l| **l <= 600 && **l % (if thorough { 5 } else { 17 }) == 3).flat_map(|l| (0..shapes.len()).map(move |s| (*l, s))).collect();
		rep.extra("tcp_leg_limit_shape_pairs", json!(twork.len()));
		par_for(rep, twork.len(), 2, srv::rt, |i, rt, local: &mut Local| {
			let (l, si) = twork[i];
			let (mi, ii, ki) = shapes[si];
			let _e = rt.enter();
			let ns: Vec<usize> = (0..=NMAX).filter(|n| (unl[&(mi, ii, ki, *n)].len() as i64 - l as i64).abs() <= 1).collect();
			for n in ns {
				let text = call_text(METHODS[mi], IDS[ii], KINDS[ki], n);
				let want = &unl[&(mi, ii, ki, n)];
				let mut obs: Vec<(&str, Vec<Vec<u8>>, Vec<String>)> = Vec::new();
				let mut attempt = 0;
				loop {
					attempt += 1;
					obs.clear();
					let log: srv::InvLog = Default::default();
					let r = rt.block_on(super::c01::tcp_roundtrips(text.as_bytes(), log, cfg(l), false));
					let h2 = rt.block_on(async {
						let log: srv::InvLog = Default::default();
						let listener = std::net::TcpListener::bind("127.0.0.1:0").map_err(|e| e.to_string())?;
						listener.set_nonblocking(true).map_err(|e| e.to_string())?;
						let addr = listener.local_addr().map_err(|e| e.to_string())?;
						let server = jsonrpsee_server::Server::builder().set_config(cfg(l)).build_from_tcp(listener).map_err(|e| e.to_string())?;
						let handle = server.start(srv::std_module(log.clone()));
						let mut conn = srv::h2_connect(addr).await?;
						let req = http::Request::builder().method("POST").uri(format!("http://{addr}/")).header("content-type", "application/json").body(srv::FramesBody::single(text.as_bytes())).map_err(|e| e.to_string())?;
						let out = tokio::time::timeout(std::time::Duration::from_secs(10), conn.request(req)).await.map_err(|_| "HTTP/2 request timed out".to_string())??;
						let _ = handle.stop();
						let handlers = log.lock().unwrap().clone();
						Ok::<_, String>((out.body, handlers))
					});
					match (r, h2) {
						(Ok((http, ws)), Ok((h2body, h2handlers))) if http.problem.is_none() && ws.problem.is_none() => {
							obs.push(("tcp:http", http.replies, http.handlers));
							obs.push(("tcp:ws", ws.replies, ws.handlers));
							obs.push(("tcp:h2", if h2body.is_empty() { vec![] } else { vec![h2body] }, h2handlers));
							break;
						}
						(r, h2) if attempt >= 3 => {
							rep.machinery_error(format!("C08 SRV-TCP leg: {:?} / {:?}", r.err(), h2.err()));
							break;
						}
						_ => std::thread::sleep(std::time::Duration::from_millis(50 * attempt)),
					}
				}
				for (tname, replies, handlers) in &obs {
					let case = json!({"engine":"ENUM","part":"single-tcp","limit": l, "transport": tname, "request": text, "unlimited_reply_len": want.len(),
						"replies": replies.iter().map(|r| String::from_utf8_lossy(r).to_string()).collect::<Vec<_>>()});
					let feat = format!("{}:{}", METHODS[mi], class_of(KINDS[ki]));
					if replies.len() != 1 {
						rep.violation(&format!("single:reply-count:{tname}:{feat}"), &format!("L={l}: {} replies to {text}", replies.len()), case.clone());
						continue;
					}
					let got = &replies[0];
					let rel = (want.len() as i64 - l as i64).clamp(-4, 4);
					let class;
					if want.len() <= l as usize {
						class = "fits";
						if got != want {
							rep.violation(&format!("single:fitting-reply-changed:{tname}:{feat}:len=limit{rel:+}"), &format!("L={l}: the unlimited reply has {} bytes (≤ L) but the limited server sent {:?}", want.len(), String::from_utf8_lossy(got)), case.clone());
						}
					} else {
						class = "too-big";
						let v: Value = serde_json::from_slice(got).unwrap_or(Value::Null);
						let idv: Value = serde_json::from_str(IDS[ii]).unwrap();
						if v["error"]["code"] != -32008 || v["id"] != idv {
							rep.violation(&format!("single:oversized-not-replaced:{tname}:{feat}:len=limit{rel:+}"), &format!("L={l}: the reply would have {} bytes (> L) but the server sent {:?}", want.len(), String::from_utf8_lossy(got)), case.clone());
						}
					}
					if got.len() > l as usize && fixed_error(got).is_none() {
						rep.violation(&format!("wire:frame-above-limit:{tname}:{feat}"), &format!("L={l}: a {}-byte reply was sent", got.len()), case.clone());
					}
					if *handlers != vec![METHODS[mi].to_string()] {
						rep.violation(&format!("limit-changes-acceptance:{tname}:{feat}"), &format!("L={l}: handlers run {handlers:?}"), case.clone());
					}
					local.case_unique(&format!("single:{tname}:{class}"));
				}
			}
		});
	}

	// ---- the low-level entry points (`http::call_with_service_builder`, `ws::connect`) with a request limit that differs
	//      from the response limit: the same single-call sweep for ids of width 1 and limits on a stride of 7
	{
		let lwork: Vec<(u32, usize)> = lims.iter().filter(|l| **l % 7 == 0 || **l >= 1024).flat_map(|l| (0..shapes.len()).filter(|s| shapes[*s].1 == 0).map(move |s| (*l, s))).collect();
		par_for(rep, lwork.len(), 4, srv::rt, |i, rt, local: &mut Local| {
			use http_body_util::BodyExt;
			let (l, si) = lwork[i];
			let (mi, ii, ki) = shapes[si];
			let _e = rt.enter();
			// request limit well above and (second pass) below the response limit
			for req_limit in [l.saturating_mul(50).max(4096), 300u32] {
				let scfg = srv::cfg_builder().max_response_body_size(l).max_request_body_size(req_limit).build();
				let window = 2i64;
				let mut ns: Vec<usize> = (0..=NMAX).filter(|n| (unl[&(mi, ii, ki, *n)].len() as i64 - l as i64).abs() <= window).collect();
				ns.push(0);
				ns.dedup();
				for n in ns {
					let text = call_text(METHODS[mi], IDS[ii], KINDS[ki], n);
					if text.len() as u32 > req_limit {
						continue;
					}
					let want = &unl[&(mi, ii, ki, n)];
					for tname in ["low-http", "low-ws"] {
						let log: srv::InvLog = Default::default();
						let got: Result<Vec<u8>, String> = rt.block_on(async {
							let (stop, handle) = jsonrpsee_server::stop_channel();
							let guard = jsonrpsee_server::ConnectionGuard::new(4);
							if tname == "low-http" {
								let conn = jsonrpsee_server::ConnectionState::new(stop, 0, guard.try_acquire().unwrap());
								let resp = jsonrpsee_server::http::call_with_service_builder(srv::post(vec![text.clone().into_bytes()], None), scfg.clone(), conn, srv::std_module(log.clone()), jsonrpsee_server::middleware::rpc::RpcServiceBuilder::new()).await;
								resp.into_body().collect().await.map(|b| b.to_bytes().to_vec()).map_err(|e| format!("{e:?}"))
							} else {
								let (methods, scfg2, stop2) = (srv::std_module(log.clone()), scfg.clone(), stop.clone());
								let svc = tower::service_fn(move |req: http::Request<hyper::body::Incoming>| {
									let (methods, scfg2, guard, stop2) = (methods.clone(), scfg2.clone(), guard.clone(), stop2.clone());
									async move {
										let conn = jsonrpsee_server::ConnectionState::new(stop2, 0, guard.try_acquire().unwrap());
										match jsonrpsee_server::ws::connect(req, scfg2, methods, conn, jsonrpsee_server::middleware::rpc::RpcServiceBuilder::new()).await {
											Ok((rp, fut)) => {
												tokio::spawn(fut);
												Ok::<_, std::convert::Infallible>(rp)
											}
											Err(rp) => Ok(rp),
										}
									}
								});
								let mut c = srv::ws_connect(svc, stop).await?;
								c.send(text.as_bytes()).await?;
								let r = tokio::time::timeout(std::time::Duration::from_secs(10), c.recv()).await.map_err(|_| "hang".to_string())?;
								let _ = handle.stop();
								r.ok_or_else(|| "closed without reply".to_string())
							}
						});
						let case = json!({"engine":"ENUM","part":"single-low-level","limit": l, "request_limit": req_limit, "entry": tname, "request": text, "unlimited_reply_len": want.len(), "reply": got.as_ref().map(|g| String::from_utf8_lossy(g).to_string())});
						let feat = format!("{}:{}", METHODS[mi], class_of(KINDS[ki]));
						let Ok(got) = got else {
							rep.violation(&format!("single:no-reply:{tname}:{feat}"), &format!("L={l}, request limit {req_limit}: {got:?}"), case);
							continue;
						};
						let rel = (want.len() as i64 - l as i64).clamp(-4, 4);
						if want.len() <= l as usize {
							if got != *want {
								rep.violation(&format!("single:fitting-reply-changed:{tname}:{feat}:len=limit{rel:+}"), &format!("L={l}, request limit {req_limit}: the unlimited reply has {} bytes (≤ L) but {tname} sent {:?}", want.len(), String::from_utf8_lossy(&got)), case.clone());
							}
						} else {
							let v: Value = serde_json::from_slice(&got).unwrap_or(Value::Null);
							let idv: Value = serde_json::from_str(IDS[ii]).unwrap();
							if v["error"]["code"] != -32008 || v["id"] != idv {
								rep.violation(&format!("single:oversized-not-replaced:{tname}:{feat}:len=limit{rel:+}"), &format!("L={l}, request limit {req_limit}: the reply would have {} bytes (> L) but {tname} sent {:?}", want.len(), String::from_utf8_lossy(&got)), case.clone());
							}
						}
						if log.lock().unwrap().as_slice() != [METHODS[mi].to_string()] {
							rep.violation(&format!("limit-changes-acceptance:{tname}:{feat}"), &format!("L={l}, request limit {req_limit}: handlers run {:?}", log.lock().unwrap()), case.clone());
						}
						local.case_unique(&format!("single:{tname}"));
					}
				}
			}
		});
	}

	// ---- batches: array length L-2..L+2 with the adjustable entry at every position
	let kmax = if thorough { 6usize } else { 4 };
	let bwork: Vec<(u32, usize, usize)> = lims.iter().flat_map(|l| (1..=kmax).flat_map(move |k| (0..k).map(move |j| (*l, k, j)))).collect();
	par_for(rep, bwork.len(), 4, srv::rt, |i, rt, local| {
		let (l, k, j) = bwork[i];
		let _e = rt.enter();
		let mut http = srv::http_service(cfg(l));
		let ws = srv::ws_server(cfg(l));
		// `inv`: one of the other entries is not a request at all (its reply is the fixed -32600 object); the array must
		// be judged as a whole whichever kind of entry crosses the limit
		const INVALID_ENTRIES: [&str; 2] = ["17", r#"{"jsonrpc":"2.0","id":5}"#];
		let inv_positions: Vec<Option<(usize, usize)>> = {
			let mut v = vec![None];
			if k >= 2 {
				for p in [k - 1, k / 2, 0] {
					if p != j && !v.iter().flatten().any(|(q, _): &(usize, usize)| *q == p) {
						for w in 0..INVALID_ENTRIES.len() {
							v.push(Some((p, w)));
						}
					}
				}
			}
			v
		};
		for kind in [0u8, 1, 3] {
		for inv in inv_positions.iter().copied() {
			if inv.is_some() && kind != 0 {
				continue;
			}
			for delta in if thorough { -4i64..=4 } else { -2i64..=2 } {
				// other entries carry 3 units; find n for entry j so that the unlimited array has L+delta bytes
				let entry = |idx: usize, n: usize| match inv {
					Some((p, w)) if p == idx => INVALID_ENTRIES[w].to_string(),
					_ => call_text("blob", &format!("{}", idx + 1), kind, n),
				};
				// what an entry that is not a request is answered with inside a batch (alone, `17` is answered -32700)
				const INVALID_REPLIES: [&str; 2] =
					[r#"{"jsonrpc":"2.0","id":null,"error":{"code":-32600,"message":"Invalid request"}}"#, r#"{"jsonrpc":"2.0","id":5,"error":{"code":-32600,"message":"Invalid request"}}"#];
				let inv_reply_len = |w: usize| INVALID_REPLIES[w].len();
				let len_of = |n: usize| -> usize {
					// reply lengths: unlimited replies for id width 1 (ids 1..4 have the same width)
					1 + (0..k)
						.map(|x| match inv {
							Some((p, w)) if p == x => inv_reply_len(w) + 1,
							_ if x == j => unl[&(0, 0, kind_index(kind), n)].len() + 1,
							_ => unl[&(0, 0, kind_index(kind), 3)].len() + 1,
						})
						.sum::<usize>()
				};
				let target = l as i64 + delta;
				let Some(n) = (0..=NMAX).find(|n| len_of(*n) as i64 == target) else { continue };
				let text = format!("[{}]", (0..k).map(|x| entry(x, if x == j { n } else { 3 })).collect::<Vec<_>>().join(","));
				// reference from the entries' replies alone on the same limited server
				let mut alone: Vec<Vec<u8>> = Vec::new();
				for x in 0..k {
					if let Some((p, w)) = inv {
						if p == x {
							alone.push(INVALID_REPLIES[w].as_bytes().to_vec());
							continue;
						}
					}
					let o = rt.block_on(srvref::http_roundtrip(&mut http, entry(x, if x == j { n } else { 3 }).as_bytes()));
					alone.push(o.replies.first().cloned().unwrap_or_default());
				}
				let total = 1 + alone.iter().map(|a| a.len() + 1).sum::<usize>();
				let mut expected_array = vec![b'['];
				for (x, a) in alone.iter().enumerate() {
					if x > 0 {
						expected_array.push(b',');
					}
					expected_array.extend_from_slice(a);
				}
				expected_array.push(b']');
				for tname in ["http", "ws"] {
					let o = if tname == "http" { rt.block_on(srvref::http_roundtrip(&mut http, text.as_bytes())) } else { rt.block_on(srvref::ws_roundtrip(&ws, text.as_bytes())) };
					let case = json!({"engine":"ENUM","part":"batch","limit": l, "transport": tname, "entries": k, "adjusted_entry": j, "invalid_entry_at": inv.map(|(p, _)| p), "array_len_minus_limit": total as i64 - l as i64, "request": text,
						"replies": o.replies.iter().map(|r| String::from_utf8_lossy(r).to_string()).collect::<Vec<_>>()});
					let rel = (total as i64 - l as i64).clamp(-4, 4);
					if o.replies.len() != 1 {
						rep.violation(&format!("batch:reply-count:{tname}"), &format!("L={l}: {} replies to a batch", o.replies.len()), case.clone());
						continue;
					}
					let got = &o.replies[0];
					let class;
					if total <= l as usize {
						class = "fits";
						if *got != expected_array {
							rep.violation(&format!("batch:fitting-array-changed:{tname}:len=limit{rel:+}"), &format!("L={l}: array of {total} bytes (≤ L) was answered {:?}", String::from_utf8_lossy(got)), case.clone());
						}
					} else {
						class = "too-big";
						let v: Value = serde_json::from_slice(got).unwrap_or(Value::Null);
						if v["error"]["code"] != -32011 || !v["id"].is_null() {
							rep.violation(&format!("batch:oversized-not-replaced:{tname}:len=limit{rel:+}"), &format!("L={l}: array of {total} bytes (> L) was answered {:?}", String::from_utf8_lossy(got)), case.clone());
						}
					}
					if got.len() > l as usize && fixed_error(got).is_none() {
						rep.violation(&format!("wire:frame-above-limit:{tname}:batch"), &format!("L={l}: a {}-byte batch reply was sent", got.len()), case.clone());
					}
					local.case_unique(&format!("batch:{tname}:{class}{}", if inv.is_some() { ":with-invalid-entry" } else { "" }));
				}
			}
		}
		}
	});

	// ---- WebSocket subscribe responses with wide subscription ids
	let swork: Vec<(u32, i64)> = lims.iter().filter(|l| **l <= 600).flat_map(|l| (-2i64..=2).map(move |d| (*l, d))).collect();
	par_for(rep, swork.len(), 8, srv::rt, |i, rt, local| {
		let (l, delta) = swork[i];
		let _e = rt.enter();
		// {"jsonrpc":"2.0","id":1,"result":"<width>"} has 36 + width bytes... measured on an unlimited server below
		let req = r#"{"jsonrpc":"2.0","id":1,"method":"sub","params":[0]}"#;
		let probe = srv::ws_server(srv::cfg_builder().set_id_provider(srv::WideIds(1)).build());
		let o = rt.block_on(srvref::ws_roundtrip(&probe, req.as_bytes()));
		let Some(base) = o.replies.first().map(|r| r.len() - 1) else {
			rep.machinery_error("subscribe probe got no reply".into());
			return;
		};
		let width = l as i64 + delta - base as i64;
		if width < 1 {
			return;
		}
		let ws = srv::ws_server(srv::cfg_builder().max_response_body_size(l).set_id_provider(srv::WideIds(width as usize)).build());
		let o = rt.block_on(srvref::ws_roundtrip(&ws, req.as_bytes()));
		let resp_len = base + width as usize;
		let case = json!({"engine":"ENUM","part":"subscribe","limit": l, "subscription_id_width": width, "response_len": resp_len,
			"replies": o.replies.iter().map(|r| String::from_utf8_lossy(r).to_string()).collect::<Vec<_>>()});
		let class;
		if o.replies.len() != 1 {
			rep.violation("subscribe:reply-count", &format!("L={l}: {} replies to a subscribe call", o.replies.len()), case.clone());
			return;
		}
		let got = &o.replies[0];
		let v: Value = serde_json::from_slice(got).unwrap_or(Value::Null);
		if resp_len <= l as usize {
			class = "fits";
			if v["result"].as_str().map(|s| s.len()) != Some(width as usize) || v["id"] != 1 {
				rep.violation("subscribe:fitting-response-changed", &format!("L={l}: a {resp_len}-byte subscribe response (≤ L) was answered {:?}", String::from_utf8_lossy(got)), case.clone());
			}
		} else {
			class = "too-big";
			if v["error"]["code"] != -32008 || v["id"] != 1 {
				rep.violation(
					"subscribe:oversized-response-sent",
					&format!("L={l}: the subscribe response has {resp_len} bytes (> L) but the server sent {:?} ({} bytes)", String::from_utf8_lossy(&got[..got.len().min(80)]), got.len()),
					case.clone(),
				);
			}
		}
		local.case_unique(&format!("subscribe:{class}"));
	});

	// ---- WebSocket unsubscribe replies: the reply echoes the request id, so its size is the caller's choice.
	// Both exits of the unsubscribe handler: parameter that is no subscription id, and a well-formed unknown id.
	const UNSUB_PARAMS: [&str; 6] = ["[13.99]", "[]", r#"[{"not":"an id"}]"#, r#"["nope"]"#, "[7]", "[null]"];
	let uwork: Vec<(u32, i64, usize)> =
		lims.iter().filter(|l| **l <= 600).flat_map(|l| (-2i64..=2).flat_map(move |d| (0..UNSUB_PARAMS.len()).map(move |p| (*l, d, p)))).collect();
	par_for(rep, uwork.len(), 8, srv::rt, |i, rt, local| {
		let (l, delta, p) = uwork[i];
		let params = UNSUB_PARAMS[p];
		let _e = rt.enter();
		let req_of = |w: usize| format!(r#"{{"jsonrpc":"2.0","id":"{}","method":"unsub","params":{params}}}"#, "i".repeat(w));
		let probe = srv::ws_server(srv::cfg_builder().build());
		let o = rt.block_on(srvref::ws_roundtrip(&probe, req_of(1).as_bytes()));
		let Some(base) = o.replies.first().map(|r| r.len() - 1) else {
			rep.machinery_error("unsubscribe probe got no reply".into());
			return;
		};
		let width = l as i64 + delta - base as i64;
		if width < 1 {
			return;
		}
		let width = width as usize;
		let unl = rt.block_on(srvref::ws_roundtrip(&probe, req_of(width).as_bytes()));
		let ws = srv::ws_server(srv::cfg_builder().max_response_body_size(l).build());
		let o = rt.block_on(srvref::ws_roundtrip(&ws, req_of(width).as_bytes()));
		let resp_len = base + width;
		let case = json!({"engine":"ENUM","part":"unsubscribe","limit": l, "request_id_width": width, "params": params, "response_len": resp_len,
			"replies": o.replies.iter().map(|r| String::from_utf8_lossy(r).to_string()).collect::<Vec<_>>()});
		if o.replies.len() != 1 || unl.replies.len() != 1 {
			rep.violation("unsubscribe:reply-count", &format!("L={l}: {} replies to an unsubscribe call", o.replies.len()), case.clone());
			return;
		}
		if unl.replies[0].len() != resp_len {
			rep.machinery_error(format!("unsubscribe leg: reply length {} != predicted {resp_len}", unl.replies[0].len()));
			return;
		}
		let got = &o.replies[0];
		let v: Value = serde_json::from_slice(got).unwrap_or(Value::Null);
		let class;
		if resp_len <= l as usize {
			class = "fits";
			if *got != unl.replies[0] {
				rep.violation(&format!("unsubscribe:fitting-response-changed:len=limit{delta:+}"), &format!("L={l}: a {resp_len}-byte unsubscribe reply (≤ L) was answered {:?}", String::from_utf8_lossy(got)), case.clone());
			}
		} else {
			class = "too-big";
			if v["error"]["code"] != -32008 || v["id"].as_str().map(|s| s.len()) != Some(width) {
				rep.violation(
					&format!("unsubscribe:oversized-response-sent:params={params}:len=limit{delta:+}"),
					&format!("L={l}: the unsubscribe reply has {resp_len} bytes (> L) but the server sent {:?} ({} bytes)", String::from_utf8_lossy(&got[..got.len().min(80)]), got.len()),
					case.clone(),
				);
			}
		}
		local.case_unique(&format!("unsubscribe:{class}:{}", if p < 3 { "unparsable-id" } else { "unknown-id" }));
	});

	// ---- PURE: MethodResponse::response and BatchResponseBuilder, full 1-step sweep
	let pure_l: Vec<usize> = (20..=300).collect();
	par_for(rep, pure_l.len(), 4, || (), |i, _, local| {
		let l = pure_l[i];
		for kind in KINDS {
			for n in 0..=280usize {
				let payload = srv::blob(kind, n);
				let unl = MethodResponse::response(Id::Number(7), ResponsePayload::success_borrowed(&payload), usize::MAX);
				let lim = MethodResponse::response(Id::Number(7), ResponsePayload::success_borrowed(&payload), l);
				let ulen = unl.as_json().get().len();
				let ok = if ulen <= l { lim.as_json().get() == unl.as_json().get() && lim.is_success() } else { lim.as_error_code() == Some(-32008) && lim.as_json().get().contains("\"id\":7") };
				if !ok {
					rep.violation(
						&format!("pure:MethodResponse:{}:len=limit{:+}", class_of(kind), (ulen as i64 - l as i64).clamp(-3, 3)),
						&format!("MethodResponse::response with limit {l}: unlimited length {ulen}, got {}", lim.as_json().get()),
						json!({"engine":"ENUM","part":"pure","limit": l, "kind": kind, "n": n}),
					);
				}
				local.case_unique("pure:response");
			}
		}
		// batch builder: k entries of fixed size, total straddling l
		for k in 1..=4usize {
			for n in 0..=120usize {
				let payload = "a".repeat(n);
				let mut b = BatchResponseBuilder::new_with_limit(l);
				let mut rejected_at = None;
				let mut total = 1usize;
				let mut expect_reject_at = None;
				for e in 0..k {
					let r = MethodResponse::response(Id::Number(e as u64), ResponsePayload::success_borrowed(&payload), usize::MAX);
					total += r.as_json().get().len() + 1;
					if total > l && expect_reject_at.is_none() {
						expect_reject_at = Some(e);
					}
					if rejected_at.is_none() {
						if let Err(err) = b.append(r) {
							rejected_at = Some(e);
							if err.as_error_code() != Some(-32011) {
								rep.violation("pure:BatchResponseBuilder:wrong-error", &format!("limit {l}: append error {}", err.as_json().get()), json!({"limit": l}));
							}
						}
					}
				}
				if rejected_at != expect_reject_at {
					rep.violation(
						&format!("pure:BatchResponseBuilder:boundary:len=limit{:+}", (total as i64 - l as i64).clamp(-3, 3)),
						&format!("BatchResponseBuilder limit {l}, {k} entries of payload {n}: rejected at {rejected_at:?}, expected {expect_reject_at:?} (array would be {total} bytes)"),
						json!({"engine":"ENUM","part":"pure","limit": l, "entries": k, "payload": n}),
					);
				} else if rejected_at.is_none() {
					let fin = b.finish();
					let txt = serde_json::to_string(&MethodResponse::from_batch(fin).as_json()).unwrap_or_default();
					if txt.len() != total {
						rep.violation("pure:BatchResponseBuilder:length", &format!("limit {l}: finished array has {} bytes, expected {total}", txt.len()), json!({"limit": l}));
					}
				}
				local.case_unique("pure:batch");
			}
		}
	});
}

fn kind_index(kind: u8) -> usize {
	KINDS.iter().position(|k| *k == kind).unwrap()
}
