//! C20 — params builders emit JSON that parses back to what was inserted (ENUM + histories, PURE).

use crate::par::{par_for, seq_count, seq_decode};
use crate::refmodel::PJ;
use crate::report::{Local, Reporter};
use jsonrpsee_core::params::{ArrayParams, BatchRequestBuilder, ObjectParams};
use jsonrpsee_core::rpc_params;
use jsonrpsee_core::traits::ToRpcParams;
use serde::ser::{SerializeMap, SerializeSeq, SerializeStruct};
use serde::{Serialize, Serializer};
use serde_json::{Value, json};
use std::collections::BTreeMap;

#[derive(Clone, Copy, Debug, PartialEq)]
enum V {
	Zero,
	Neg,
	Max,
	Float,
	True,
	NoneOpt,
	Empty,
	Quote,
	Uni,
	Arr,
	Nested,
	Unit,
	FailBefore,
	FailInSeq,
	FailInMapValue,
	FailKey,
	FailInStruct,
}
const VS: [V; 17] = [
	V::Zero,
	V::Quote,
	V::FailInSeq,
	V::Arr,
	V::FailBefore,
	V::Neg,
	V::Max,
	V::Float,
	V::True,
	V::NoneOpt,
	V::Empty,
	V::Uni,
	V::Nested,
	V::Unit,
	V::FailInMapValue,
	V::FailKey,
	V::FailInStruct,
];

#[derive(Serialize)]
struct UnitS;

impl Serialize for V {
	fn serialize<S: Serializer>(&self, s: S) -> Result<S::Ok, S::Error> {
		use serde::ser::Error;
		match self {
			V::Zero => s.serialize_u8(0),
			V::Neg => s.serialize_i64(-1),
			V::Max => s.serialize_u64(u64::MAX),
			V::Float => s.serialize_f64(1.5),
			V::True => s.serialize_bool(true),
			V::NoneOpt => Option::<u8>::None.serialize(s),
			V::Empty => s.serialize_str(""),
			V::Quote => s.serialize_str("a\"b\\\n"),
			V::Uni => s.serialize_str("é\u{1F600}"),
			V::Arr => [1, 2].serialize(s),
			V::Nested => {
				let mut m = BTreeMap::new();
				m.insert("x", vec![json!({"y": [1, {"z": null}]}), json!("]")]);
				m.insert("w", vec![]);
				m.serialize(s)
			}
			V::Unit => UnitS.serialize(s),
			V::FailBefore => Err(S::Error::custom("fails before writing")),
			V::FailInSeq => {
				let mut q = s.serialize_seq(None)?;
				q.serialize_element(&1)?;
				Err(S::Error::custom("fails inside a sequence"))
			}
			V::FailInMapValue => {
				let mut m = s.serialize_map(None)?;
				m.serialize_key("k")?;
				m.serialize_value(&V::FailBefore)?;
				m.end()
			}
			V::FailKey => {
				// a map whose key is not a string: serde_json refuses it after having written `{`
				let mut m = BTreeMap::new();
				m.insert((1, 2), 3);
				m.serialize(s)
			}
			V::FailInStruct => {
				let mut st = s.serialize_struct("S", 2)?;
				st.serialize_field("ok", &1)?;
				st.serialize_field("bad", &V::FailInSeq)?;
				st.end()
			}
		}
	}
}

fn reference(v: V) -> Option<Value> {
	serde_json::to_value(v).ok()
}

const KEYS: [[&str; 4]; 5] = [
	["a", "b", "a", "k\"q"],
	["a", "a", "a", "a"],
	["k\"q", "", "b", "b"],
	// names that need (or look like) JSON escapes: a backslash, a backslash that would form an escape, a control character
	["a\\b", "x\\u0041", "dir\\name", "t\tab"],
	["é", "\u{1F600}", "\\", "\u{7f}"],
];

fn judge_array(rep: &Reporter, hist: &[V], results: &[bool], out: Result<Result<Option<String>, String>, ()>) -> &'static str {
	let desc = format!("{hist:?}");
	let expected: Vec<Value> = hist.iter().filter_map(|v| reference(*v)).collect();
	for (k, v) in hist.iter().enumerate() {
		if results[k] != reference(*v).is_some() {
			rep.violation(
				"array:insert-result",
				&format!("ArrayParams insert #{k} of {v:?} returned {} but plain serialisation {}", if results[k] { "Ok" } else { "Err" }, if reference(*v).is_some() { "succeeds" } else { "fails" }),
				json!({"engine":"ENUM","builder":"ArrayParams","inserts": desc}),
			);
			return "insert-result-mismatch";
		}
	}
	let failing = hist.iter().filter(|v| reference(**v).is_none()).map(|v| format!("{v:?}")).collect::<Vec<_>>();
	let fsig = if failing.is_empty() { "no-failed-insert".to_string() } else { format!("after-failed-insert:{}", failing[0]) };
	match out {
		Err(()) => {
			rep.violation(
				&format!("array:panic:{fsig}"),
				&format!("ArrayParams after inserts {desc}: to_rpc_params() panicked"),
				json!({"engine":"ENUM","builder":"ArrayParams","inserts": desc}),
			);
			"panic"
		}
		Ok(Err(e)) => {
			rep.violation(&format!("array:error:{fsig}"), &format!("ArrayParams after {desc}: to_rpc_params() = Err({e})"), json!({"builder":"ArrayParams","inserts": desc}));
			"error"
		}
		Ok(Ok(None)) => {
			if hist.is_empty() || expected.is_empty() {
				"none"
			} else {
				rep.violation(&format!("array:lost-values:{fsig}"), &format!("ArrayParams after {desc}: no params, expected {expected:?}"), json!({"builder":"ArrayParams","inserts": desc}));
				"lost"
			}
		}
		Ok(Ok(Some(txt))) => {
			if hist.is_empty() {
				rep.violation("array:empty-not-none", &format!("empty ArrayParams yields {txt}"), json!({"builder":"ArrayParams","inserts": desc}));
				return "empty-not-none";
			}
			match PJ::parse(txt.as_bytes()) {
				Some(PJ::Arr(items)) => {
					let got: Vec<Value> = items.iter().map(|i| i.to_value()).collect();
					if got == expected {
						"ok"
					} else {
						rep.violation(
							&format!("array:wrong-values:{fsig}"),
							&format!("ArrayParams after {desc}: {txt} parses to {got:?}, expected {expected:?}"),
							json!({"engine":"ENUM","builder":"ArrayParams","inserts": desc, "text": txt}),
						);
						"wrong-values"
					}
				}
				_ => {
					rep.violation(&format!("array:invalid-json:{fsig}"), &format!("ArrayParams after {desc}: emitted {txt:?} is not a JSON array"), json!({"builder":"ArrayParams","inserts": desc, "text": txt}));
					"invalid-json"
				}
			}
		}
	}
}

fn judge_object(rep: &Reporter, hist: &[V], keys: &[&str], results: &[bool], out: Result<Result<Option<String>, String>, ()>) -> &'static str {
	let desc = format!("{:?}", hist.iter().zip(keys).collect::<Vec<_>>());
	let expected: Vec<(String, Value)> = hist.iter().zip(keys).filter_map(|(v, k)| reference(*v).map(|x| (k.to_string(), x))).collect();
	for (k, v) in hist.iter().enumerate() {
		if results[k] != reference(*v).is_some() {
			rep.violation("object:insert-result", &format!("ObjectParams insert #{k} of {v:?} returned the wrong Ok/Err"), json!({"builder":"ObjectParams","inserts": desc}));
			return "insert-result-mismatch";
		}
	}
	let failing = hist.iter().filter(|v| reference(**v).is_none()).map(|v| format!("{v:?}")).collect::<Vec<_>>();
	let fsig = if failing.is_empty() { "no-failed-insert".to_string() } else { format!("after-failed-insert:{}", failing[0]) };
	match out {
		Err(()) => {
			rep.violation(&format!("object:panic:{fsig}"), &format!("ObjectParams after inserts {desc}: to_rpc_params() panicked"), json!({"engine":"ENUM","builder":"ObjectParams","inserts": desc}));
			"panic"
		}
		Ok(Err(e)) => {
			rep.violation(&format!("object:error:{fsig}"), &format!("ObjectParams after {desc}: Err({e})"), json!({"builder":"ObjectParams","inserts": desc}));
			"error"
		}
		Ok(Ok(None)) => {
			if expected.is_empty() {
				"none"
			} else {
				rep.violation(&format!("object:lost-values:{fsig}"), &format!("ObjectParams after {desc}: no params"), json!({"builder":"ObjectParams","inserts": desc}));
				"lost"
			}
		}
		Ok(Ok(Some(txt))) => {
			if hist.is_empty() {
				rep.violation("object:empty-not-none", &format!("empty ObjectParams yields {txt}"), json!({"builder":"ObjectParams"}));
				return "empty-not-none";
			}
			match PJ::parse(txt.as_bytes()) {
				Some(PJ::Obj(items)) => {
					let got: Vec<(String, Value)> = items.iter().map(|(k, i)| (k.clone(), i.to_value())).collect();
					if got == expected {
						"ok"
					} else {
						rep.violation(&format!("object:wrong-values:{fsig}"), &format!("ObjectParams after {desc}: {txt} has pairs {got:?}, expected {expected:?}"), json!({"builder":"ObjectParams","inserts": desc, "text": txt}));
						"wrong-values"
					}
				}
				_ => {
					rep.violation(&format!("object:invalid-json:{fsig}"), &format!("ObjectParams after {desc}: emitted {txt:?} is not a JSON object"), json!({"builder":"ObjectParams","inserts": desc, "text": txt}));
					"invalid-json"
				}
			}
		}
	}
}

fn to_text(r: Result<Option<Box<serde_json::value::RawValue>>, serde_json::Error>) -> Result<Option<String>, String> {
	match r {
		Ok(o) => Ok(o.map(|r| r.get().to_string())),
		Err(e) => Err(e.to_string()),
	}
}

macro_rules! tuple_check {
	($rep:expr, $local:expr, $($v:expr),+) => {{
		let t = ($($v,)+);
		let exp = json!([$($v),+]);
		let got = to_text(t.to_rpc_params());
		let ok = matches!(&got, Ok(Some(txt)) if serde_json::from_str::<Value>(txt).ok().as_ref() == Some(&exp));
		if !ok {
			$rep.violation("tuple:wrong", &format!("tuple {exp} -> {got:?}"), json!({"kind":"tuple","expected": exp}));
		}
		$local.case_unique("tuple");
	}};
}

/// Every container kind with element type T: the emitted text must parse back, as `Vec<T>`, to the inserted values.
fn wide_kind<T>(rep: &Reporter, local: &mut Local, tname: &str, vals: &[T], same: impl Fn(&T, &T) -> bool)
where
	T: Serialize + serde::de::DeserializeOwned + Clone + Send + std::fmt::Debug + 'static,
{
	for a in vals {
		for b in vals {
			let mut ap = ArrayParams::new();
			let ins = ap.insert(a.clone()).is_ok() && ap.insert(b.clone()).is_ok();
			let mut op = ObjectParams::new();
			let ins_o = op.insert("x", a.clone()).is_ok() && op.insert("y", b.clone()).is_ok();
			let two = vec![a.clone(), b.clone()];
			let outs: Vec<(&str, Result<Option<String>, String>)> = vec![
				("builder", if ins { to_text(ap.to_rpc_params()) } else { Err("insert failed".into()) }),
				("macro", to_text(rpc_params![a.clone(), b.clone()].to_rpc_params())),
				("tuple2", to_text((a.clone(), b.clone()).to_rpc_params())),
				("slice", to_text((&two[..]).to_rpc_params())),
				("vec", to_text(two.clone().to_rpc_params())),
				("array", to_text([a.clone(), b.clone()].to_rpc_params())),
			];
			for (kind, got) in outs {
				let back: Option<Vec<T>> = match &got {
					Ok(Some(t)) => serde_json::from_str::<Vec<T>>(t).ok(),
					_ => None,
				};
				let ok = back.as_ref().map_or(false, |v| v.len() == 2 && same(&v[0], a) && same(&v[1], b));
				if !ok {
					rep.violation(&format!("{kind}:wide-value:{tname}"), &format!("{kind} of ({a:?}, {b:?}) as {tname} -> {got:?}, which does not parse back to the inserted values"), json!({"kind": kind, "type": tname}));
				}
				local.case_unique(&format!("wide:{kind}"));
			}
			// named builder: {"x":a,"y":b}
			let got = if ins_o { to_text(op.to_rpc_params()) } else { Err("insert failed".into()) };
			let back: Option<BTreeMap<String, T>> = match &got {
				Ok(Some(t)) => serde_json::from_str(t).ok(),
				_ => None,
			};
			let ok = back.as_ref().map_or(false, |m| m.len() == 2 && m.get("x").map_or(false, |v| same(v, a)) && m.get("y").map_or(false, |v| same(v, b)));
			if !ok {
				rep.violation(&format!("object:wide-value:{tname}"), &format!("ObjectParams of x={a:?}, y={b:?} as {tname} -> {got:?}, which does not parse back to the inserted values"), json!({"kind": "object", "type": tname}));
			}
			local.case_unique("wide:object");
		}
	}
}

fn wide_values(rep: &Reporter, local: &mut Local) {
	wide_kind::<u128>(rep, local, "u128", &[0, u64::MAX as u128, u64::MAX as u128 + 1, u128::MAX], |x, y| x == y);
	wide_kind::<i128>(rep, local, "i128", &[0, i64::MIN as i128 - 1, i128::MIN, i128::MAX], |x, y| x == y);
	wide_kind::<f32>(rep, local, "f32", &[0.1, -0.0, f32::MAX, f32::MIN_POSITIVE, 16777217.0, 1.0e-45], |x, y| x.to_bits() == y.to_bits());
	wide_kind::<f64>(rep, local, "f64", &[0.1, -0.0, f64::MAX, 5e-324, 0.30000000000000004, 123456789.12345679], |x, y| x.to_bits() == y.to_bits());
	let raws: Vec<Box<serde_json::value::RawValue>> = ["123456789012345678901234567890", "-0.0", "1.0000000000000000000001", "1E2", "18446744073709551616", "{\"b\":1,\"a\":2,\"b\":3}", "\"\\u0041\""]
		.iter()
		.map(|t| serde_json::value::RawValue::from_string(t.to_string()).unwrap())
		.collect();
	wide_kind::<Box<serde_json::value::RawValue>>(rep, local, "RawValue", &raws, |x, y| x.get() == y.get());
}

pub fn check(rep: &Reporter) {
	let maxlen = if rep.tier.thorough() { 6 } else { 5 };
	rep.set_rule(&format!(
		"all insert sequences of length 0..{maxlen} over {} value kinds (scalars, strings needing escapes, Unicode, nested containers, unit struct, and five Serialize impls that fail before writing / inside a sequence / inside a map value / on a non-string key / inside a struct field) into ArrayParams and into ObjectParams under 5 key schemes (incl. duplicate keys, keys with quotes, backslashes, control and non-ASCII characters); every history is distinct by construction; rpc_params! with 0..4 arguments over the non-failing kinds, tuples of arity 1..16, slices / arrays / Vec of length 0..3, serde_json::Map, BatchRequestBuilder with 0..3 entries incl. entries whose params fail to serialise; pairs of 128-bit integers, f32/f64 edge values and raw JSON values (30-digit number, -0.0, 1E2, duplicate keys, escapes) through every container kind, judged by a typed parse-back. Oracle: serde_json::to_value of each inserted value and a pair-preserving parse of the emitted text.",
		VS.len()
	));
	rep.assume("serde_json::to_value of a value is the reference for what 'the inserted value' is");
	let n = seq_count(VS.len(), maxlen);
	par_for(rep, n, 256, || (), |i, _, local: &mut Local| {
		let hist: Vec<V> = seq_decode(i, VS.len(), maxlen).into_iter().map(|k| VS[k]).collect();
		// positional
		let mut results = Vec::new();
		let mut b = ArrayParams::new();
		for v in &hist {
			results.push(b.insert(*v).is_ok());
		}
		let out = std::panic::catch_unwind(std::panic::AssertUnwindSafe(|| to_text(b.to_rpc_params()))).map_err(|_| ());
		let class = judge_array(rep, &hist, &results, out);
		local.case_unique(&format!("array:{class}"));
		// a clone taken mid-history behaves like the original prefix
		if hist.len() >= 2 {
			let mut b = ArrayParams::new();
			let _ = b.insert(hist[0]);
			let c = b.clone();
			for v in &hist[1..] {
				let _ = b.insert(*v);
			}
			let out = std::panic::catch_unwind(std::panic::AssertUnwindSafe(|| to_text(c.to_rpc_params()))).map_err(|_| ());
			let r0 = [reference(hist[0]).is_some()];
			let class = judge_array(rep, &hist[..1], &r0, out);
			local.case_unique(&format!("array-clone:{class}"));
		}
		// named
		for keys in KEYS.iter() {
			if hist.len() > 4 {
				break;
			}
			let mut results = Vec::new();
			let mut b = ObjectParams::new();
			for (k, v) in hist.iter().enumerate() {
				results.push(b.insert(keys[k], *v).is_ok());
			}
			let out = std::panic::catch_unwind(std::panic::AssertUnwindSafe(|| to_text(b.to_rpc_params()))).map_err(|_| ());
			let class = judge_object(rep, &hist, &keys[..hist.len()], &results, out);
			local.case_unique(&format!("object:{class}"));
			if hist.is_empty() {
				break;
			}
		}
		if i == 5000 {
			rep.sample(json!({"builder":"ArrayParams/ObjectParams","inserts": format!("{hist:?}")}));
		}
	});

	// rpc_params!, tuples, slices, arrays, Vec, Map, batch builder (sequential: small)
	let mut local = Local::default();
	let good: Vec<V> = VS.iter().copied().filter(|v| reference(*v).is_some()).collect();
	{
		let got = to_text(rpc_params![].to_rpc_params());
		if got != Ok(None) {
			rep.violation("macro:empty", &format!("rpc_params![] -> {got:?}"), json!({"kind":"rpc_params"}));
		}
		local.case_unique("macro");
		for a in &good {
			let exp = json!([a]);
			let got = to_text(rpc_params![*a].to_rpc_params());
			if !matches!(&got, Ok(Some(t)) if serde_json::from_str::<Value>(t).ok().as_ref() == Some(&exp)) {
				rep.violation("macro:wrong", &format!("rpc_params![{a:?}] -> {got:?}"), json!({"kind":"rpc_params"}));
			}
			local.case_unique("macro");
			for b in &good {
				let exp = json!([a, b]);
				let got = to_text(rpc_params![*a, *b].to_rpc_params());
				if !matches!(&got, Ok(Some(t)) if serde_json::from_str::<Value>(t).ok().as_ref() == Some(&exp)) {
					rep.violation("macro:wrong", &format!("rpc_params![{a:?},{b:?}] -> {got:?}"), json!({"kind":"rpc_params"}));
				}
				local.case_unique("macro");
				for c in &good {
					let exp = json!([a, b, c, a]);
					let got = to_text(rpc_params![*a, *b, *c, *a].to_rpc_params());
					if !matches!(&got, Ok(Some(t)) if serde_json::from_str::<Value>(t).ok().as_ref() == Some(&exp)) {
						rep.violation("macro:wrong", &format!("rpc_params![{a:?},{b:?},{c:?},{a:?}] -> {got:?}"), json!({"kind":"rpc_params"}));
					}
					local.case_unique("macro");
					// slices / Vec / arrays of the same values
					let vals = vec![*a, *b, *c];
					let exp = json!([a, b, c]);
					for (kind, got) in [
						("slice", to_text((&vals[..]).to_rpc_params())),
						("vec", to_text(vals.clone().to_rpc_params())),
						("array", to_text([*a, *b, *c].to_rpc_params())),
						("tuple3", to_text((*a, *b, *c).to_rpc_params())),
					] {
						if !matches!(&got, Ok(Some(t)) if serde_json::from_str::<Value>(t).ok().as_ref() == Some(&exp)) {
							rep.violation(&format!("{kind}:wrong"), &format!("{kind} {exp} -> {got:?}"), json!({"kind": kind}));
						}
						local.case_unique(kind);
					}
				}
			}
		}
	}
	// slices, Vec and arrays of length 0, 1 and 2 (length 3 above): the empty ones must still be the JSON array `[]`
	{
		let empty: Vec<V> = vec![];
		let arr0: [V; 0] = [];
		for (kind, got) in [("slice", to_text((&empty[..]).to_rpc_params())), ("vec", to_text(empty.clone().to_rpc_params())), ("array", to_text(arr0.to_rpc_params()))] {
			if !matches!(&got, Ok(Some(t)) if serde_json::from_str::<Value>(t).ok() == Some(json!([]))) {
				rep.violation(&format!("{kind}:wrong:empty"), &format!("an empty {kind} -> {got:?}, expected the JSON array []"), json!({"kind": kind, "len": 0}));
			}
			local.case_unique(kind);
		}
		for a in &good {
			let one = vec![*a];
			for (kind, got) in [("slice", to_text((&one[..]).to_rpc_params())), ("vec", to_text(one.clone().to_rpc_params())), ("array", to_text([*a].to_rpc_params()))] {
				if !matches!(&got, Ok(Some(t)) if serde_json::from_str::<Value>(t).ok() == Some(json!([a]))) {
					rep.violation(&format!("{kind}:wrong"), &format!("{kind} [{a:?}] -> {got:?}"), json!({"kind": kind, "len": 1}));
				}
				local.case_unique(kind);
			}
			for b in &good {
				let two = vec![*a, *b];
				for (kind, got) in [("slice", to_text((&two[..]).to_rpc_params())), ("vec", to_text(two.clone().to_rpc_params())), ("array", to_text([*a, *b].to_rpc_params())), ("sub-slice", to_text((&two[2..]).to_rpc_params()))] {
					let exp = if kind == "sub-slice" { json!([]) } else { json!([a, b]) };
					if !matches!(&got, Ok(Some(t)) if serde_json::from_str::<Value>(t).ok() == Some(exp.clone())) {
						rep.violation(&format!("{kind}:wrong"), &format!("{kind} of [{a:?},{b:?}] -> {got:?}, expected {exp}"), json!({"kind": kind, "len": 2}));
					}
					local.case_unique(kind);
				}
			}
		}
	}
	// tuples of every arity with rotating values
	let g = |k: usize| good[k % good.len()];
	for r in 0..good.len() {
		tuple_check!(rep, local, g(r));
		tuple_check!(rep, local, g(r), g(r + 1));
		tuple_check!(rep, local, g(r), g(r + 1), g(r + 2));
		tuple_check!(rep, local, g(r), g(r + 1), g(r + 2), g(r + 3));
		tuple_check!(rep, local, g(r), g(r + 1), g(r + 2), g(r + 3), g(r + 4));
		tuple_check!(rep, local, g(r), g(r + 1), g(r + 2), g(r + 3), g(r + 4), g(r + 5));
		tuple_check!(rep, local, g(r), g(r + 1), g(r + 2), g(r + 3), g(r + 4), g(r + 5), g(r + 6));
		tuple_check!(rep, local, g(r), g(r + 1), g(r + 2), g(r + 3), g(r + 4), g(r + 5), g(r + 6), g(r + 7));
		tuple_check!(rep, local, g(r), g(r + 1), g(r + 2), g(r + 3), g(r + 4), g(r + 5), g(r + 6), g(r + 7), g(r + 8));
		tuple_check!(rep, local, g(r), g(r + 1), g(r + 2), g(r + 3), g(r + 4), g(r + 5), g(r + 6), g(r + 7), g(r + 8), g(r + 9));
		tuple_check!(rep, local, g(r), g(r + 1), g(r + 2), g(r + 3), g(r + 4), g(r + 5), g(r + 6), g(r + 7), g(r + 8), g(r + 9), g(r + 10));
		tuple_check!(rep, local, g(r), g(r + 1), g(r + 2), g(r + 3), g(r + 4), g(r + 5), g(r + 6), g(r + 7), g(r + 8), g(r + 9), g(r + 10), g(r + 11));
		tuple_check!(rep, local, g(r), g(r + 1), g(r + 2), g(r + 3), g(r + 4), g(r + 5), g(r + 6), g(r + 7), g(r + 8), g(r + 9), g(r + 10), g(r + 11), g(r + 12));
		tuple_check!(rep, local, g(r), g(r + 1), g(r + 2), g(r + 3), g(r + 4), g(r + 5), g(r + 6), g(r + 7), g(r + 8), g(r + 9), g(r + 10), g(r + 11), g(r + 12), g(r + 13));
		tuple_check!(rep, local, g(r), g(r + 1), g(r + 2), g(r + 3), g(r + 4), g(r + 5), g(r + 6), g(r + 7), g(r + 8), g(r + 9), g(r + 10), g(r + 11), g(r + 12), g(r + 13), g(r + 14));
		tuple_check!(rep, local, g(r), g(r + 1), g(r + 2), g(r + 3), g(r + 4), g(r + 5), g(r + 6), g(r + 7), g(r + 8), g(r + 9), g(r + 10), g(r + 11), g(r + 12), g(r + 13), g(r + 14), g(r + 15));
	}
	// failing values through the blanket impls report an error (no panic, no text)
	for bad in VS.iter().copied().filter(|v| reference(*v).is_none()) {
		let r = std::panic::catch_unwind(|| to_text(vec![V::Zero, bad].to_rpc_params()));
		if !matches!(r, Ok(Err(_))) {
			rep.violation("vec:failing-value", &format!("Vec with failing {bad:?} -> {r:?}"), json!({"kind":"vec"}));
		}
		local.case_unique("vec-failing");
	}
	// values outside serde_json::Value's number model (128-bit integers, f32, raw JSON numbers with more digits than
	// an f64 holds): judged by a typed parse-back, not through Value
	wide_values(rep, &mut local);
	// serde_json::Map
	for a in &good {
		for b in &good {
			let mut m = serde_json::Map::new();
			m.insert("k\"q".into(), reference(*a).unwrap());
			m.insert("a".into(), reference(*b).unwrap());
			let exp = Value::Object(m.clone());
			let got = to_text(m.to_rpc_params());
			if !matches!(&got, Ok(Some(t)) if serde_json::from_str::<Value>(t).ok().as_ref() == Some(&exp)) {
				rep.violation("map:wrong", &format!("Map {exp} -> {got:?}"), json!({"kind":"map"}));
			}
			local.case_unique("map");
		}
	}
	// batch builder with 0..3 entries
	{
		let b = BatchRequestBuilder::new();
		if b.build().is_ok() {
			rep.violation("batch:empty-ok", "empty BatchRequestBuilder builds", json!({"kind":"batch"}));
		}
		local.case_unique("batch");
		let nb = seq_count(VS.len(), 3);
		for i in 1..nb {
			let hist: Vec<V> = seq_decode(i, VS.len(), 3).into_iter().map(|k| VS[k]).collect();
			let mut b = BatchRequestBuilder::new();
			let names = ["m0", "m1", "m2"];
			let mut exp: Vec<(String, Option<Value>)> = Vec::new();
			for (k, v) in hist.iter().enumerate() {
				let mut p = ArrayParams::new();
				let okp = p.insert(*v).is_ok();
				// an entry whose params failed to build is skipped by the caller; valid ones are inserted
				if okp {
					let r = b.insert(names[k], p);
					if r.is_err() {
						rep.violation("batch:insert-err", &format!("batch insert of valid params failed for {v:?}"), json!({"kind":"batch"}));
					}
					exp.push((names[k].to_string(), Some(json!([v]))));
				} else {
					// params whose serialisation fails (a Vec holding the failing value): the insert must report the error
					// and add nothing to the batch
					if b.insert(names[k], vec![*v]).is_ok() {
						rep.violation("batch:failing-params-accepted", &format!("batch insert of params that fail to serialise ({v:?}) returned Ok"), json!({"kind":"batch"}));
					}
					if k == 1 {
						let _ = b.insert(names[k], ArrayParams::new());
						exp.push((names[k].to_string(), None));
					}
				}
			}
			let iter_view: Vec<(String, Option<Value>)> = b.iter().map(|(m, p)| (m.to_string(), p.map(|r| serde_json::from_str(r.get()).unwrap()))).collect();
			let built = b.build();
			match built {
				Err(_) => {
					if !exp.is_empty() {
						rep.violation("batch:lost", &format!("batch {hist:?} failed to build"), json!({"kind":"batch"}));
					}
				}
				Ok(v) => {
					let got: Vec<(String, Option<Value>)> = v.iter().map(|(m, p)| (m.to_string(), p.as_ref().map(|r| serde_json::from_str(r.get()).unwrap()))).collect();
					if got != exp || iter_view != exp {
						rep.violation("batch:wrong", &format!("batch {hist:?} -> {got:?}, expected {exp:?}"), json!({"kind":"batch"}));
					}
				}
			}
			local.case_unique("batch");
		}
	}
	rep.merge(local);
	rep.sample(json!({"builder":"ArrayParams","inserts":"[Zero, FailInSeq, Quote]","expected":"insert results [Ok, Err, Ok]; text parses to [0, \"a\\\"b\\\\\\n\"]"}));
}
