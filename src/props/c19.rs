//! C19 — HTTP: only JSON POSTs reach RPC; body chunking never changes the answer (ENUM, SRV-HTTP).

use crate::par::par_for;
use crate::report::Reporter;
use crate::srv::{self, FramesBody, HttpOut};
use jsonrpsee_server::HttpRequest;
use serde_json::json;

// method tokens are case-sensitive (RFC 9110 §9.1): `post` is an extension method, not POST
const METHODS: [&str; 16] = ["GET", "POST", "PUT", "DELETE", "PATCH", "HEAD", "OPTIONS", "TRACE", "CONNECT", "FOO", "post", "Post", "pOsT", "POSTS", "POS", "get"];
const ACCEPTED: [&str; 6] = [
	"application/json",
	"application/json; charset=utf-8",
	"application/json;charset=utf-8",
	"application/json-rpc",
	"application/json-rpc;charset=utf-8",
	"application/json-rpc; charset=utf-8",
];
const NEAR: [&str; 22] = [
	"application/jsonx",
	"text/json",
	"text/plain",
	"application/json;",
	"application/json; charset=utf-8;",
	"application/json; charset=utf-8; x=y",
	"application/json;  charset=utf-8",
	" application/json",
	"application/json ",
	"application/json;charset=utf8",
	"application/json ;charset=utf-8",
	"application/json; charset=latin1",
	"application/json-rpcx",
	"application/jsonrpc",
	"application/x-json",
	"json",
	"application/",
	"",
	"*/*",
	"application/json,application/json",
	"application/json-rpc; charset=utf-8 ",
	"multipart/form-data; boundary=application/json",
];

fn ref_accepted(ct: &str) -> bool {
	ACCEPTED.iter().any(|a| a.len() == ct.len() && a.bytes().zip(ct.bytes()).all(|(x, y)| x.to_ascii_lowercase() == y.to_ascii_lowercase()))
}

/// case variants: every letter independently for short strings, per-word styles for long ones
fn case_variants(s: &str, full_limit: usize) -> Vec<String> {
	let letters: Vec<usize> = s.char_indices().filter(|(_, c)| c.is_ascii_alphabetic()).map(|(i, _)| i).collect();
	let mut out = Vec::new();
	if letters.len() <= full_limit {
		for mask in 0u32..(1u32 << letters.len()) {
			let mut b = s.as_bytes().to_vec();
			for (k, i) in letters.iter().enumerate() {
				if mask >> k & 1 == 1 {
					b[*i] = b[*i].to_ascii_uppercase();
				}
			}
			out.push(String::from_utf8(b).unwrap());
		}
	} else {
		// words = maximal alphabetic runs; styles: lower, UPPER, Title, aLTERNATING
		let bytes = s.as_bytes();
		let mut words: Vec<(usize, usize)> = Vec::new();
		let mut i = 0;
		while i < bytes.len() {
			if bytes[i].is_ascii_alphabetic() {
				let st = i;
				while i < bytes.len() && bytes[i].is_ascii_alphabetic() {
					i += 1;
				}
				words.push((st, i));
			} else {
				i += 1;
			}
		}
		let n = 4usize.pow(words.len() as u32);
		for mut idx in 0..n {
			let mut b = bytes.to_vec();
			for (st, en) in &words {
				let style = idx % 4;
				idx /= 4;
				for k in *st..*en {
					let up = match style {
						0 => false,
						1 => true,
						2 => k == *st,
						_ => (k - st) % 2 == 1,
					};
					if up {
						b[k] = b[k].to_ascii_uppercase();
					}
				}
			}
			out.push(String::from_utf8(b).unwrap());
		}
	}
	out
}

const CALL: &str = r#"{"jsonrpc":"2.0","id":1,"method":"sync_echo","params":[1,"x"]}"#;

fn bodies() -> Vec<Vec<u8>> {
	let mut v: Vec<Vec<u8>> = vec![
		CALL.as_bytes().to_vec(),
		br#"{"jsonrpc":"2.0","id":"s","method":"add","params":[1,2]}"#.to_vec(),
		br#"{"jsonrpc":"2.0","method":"sync_echo","params":[1]}"#.to_vec(),
		br#"[{"jsonrpc":"2.0","id":1,"method":"add","params":[1,2]},{"jsonrpc":"2.0","id":2,"method":"nope"}]"#.to_vec(),
		br#"[{"jsonrpc":"2.0","method":"sync_echo"}]"#.to_vec(),
		br#"{"jsonrpc":"2.0","id":1,"method":1}"#.to_vec(),
		br#"{"jsonrpc":"2.0","id":1,"method":"add","params":[1,"#.to_vec(),
		br#"[]"#.to_vec(),
		br#"[1]"#.to_vec(),
		br#"{}"#.to_vec(),
		// whitespace inside strings (params, id) and between tokens: significant vs. insignificant blanks
		br#"{"jsonrpc":"2.0","id":" i d ","method":"sync_echo","params":["a b  c"," ","	"]}"#.to_vec(),
		b"{ \"jsonrpc\" : \"2.0\" , \"id\" : 1 ,\n\"method\" : \"sync_echo\" , \"params\" : [ 1 , \"x y\" ] }".to_vec(),
		br#"x"#.to_vec(),
		br#"   {"jsonrpc":"2.0","id":7,"method":"fail"}  "#.to_vec(),
		b"\n[ {\"jsonrpc\":\"2.0\",\"id\":7,\"method\":\"async_echo\",\"params\":{\"a\":[1]}} ]\r\n".to_vec(),
	];
	for ws in [1usize, 126, 127, 128] {
		let mut b = vec![b' '; ws];
		b.extend_from_slice(br#"{"jsonrpc":"2.0","id":3,"method":"add","params":[3,4]}"#);
		v.push(b);
	}
	v
}

async fn call(svc: &mut srv::HttpSvc, req: HttpRequest<FramesBody>) -> (Result<HttpOut, String>, Vec<String>) {
	svc.log.lock().unwrap().clear();
	let out = srv::http_call(&mut svc.svc, req).await;
	let log = svc.log.lock().unwrap().clone();
	(out, log)
}


/// Part (A) judgement, shared by the tower-service leg and the loopback-TCP leg.
fn judge_a(rep: &Reporter, prefix: &str, method: &str, ct: &Option<Vec<String>>, status: u16, body: &[u8], log: &[String]) -> (&'static str, serde_json::Value) {
	struct Out<'a> {
		status: u16,
		body: &'a [u8],
	}
	let out = Out { status, body };
	let case = json!({"engine":"ENUM","part":"A","method": method, "content_type": ct, "status": out.status, "handlers": log});
		let exp_accept = match ct {
			Some(v) if v.len() == 1 => Some(ref_accepted(&v[0])),
			Some(v) => {
				// duplicates: judged only when all values agree
				let a: Vec<bool> = v.iter().map(|x| ref_accepted(x)).collect();
				if a.iter().all(|x| *x) { Some(true) } else if a.iter().all(|x| !*x) { Some(false) } else { None }
			}
			None => Some(false),
		};
		let class;
		if method != "POST" {
			class = "non-post";
			if out.status != 405 || !log.is_empty() {
				rep.violation(&format!("{prefix}method:{method}:not-405"), &format!("{method} request answered {} (handlers run: {log:?}), expected 405 and no handler", out.status), case.clone());
			}
		} else {
			match exp_accept {
				Some(true) => {
					class = "post-accepted";
					let ok = out.status == 200 && log == ["sync_echo"] && serde_json::from_slice::<serde_json::Value>(&out.body).map_or(false, |v| v["id"] == 1 && v["result"]["m"] == "sync_echo");
					if !ok {
						rep.violation(&format!("{prefix}content-type:accepted-spelling-rejected"), &format!("POST with content-type {ct:?}: status {} body {:?}", out.status, String::from_utf8_lossy(&out.body)), case.clone());
					}
				}
				Some(false) => {
					class = "post-unsupported";
					if out.status != 415 || !log.is_empty() {
						rep.violation(&format!("{prefix}content-type:other-type-not-415"), &format!("POST with content-type {ct:?}: status {} handlers {log:?}, expected 415 and no handler", out.status), case.clone());
					}
				}
				None => {
					class = "post-mixed-duplicates";
					if !(out.status == 415 && log.is_empty()) && !(out.status == 200 && log == ["sync_echo"]) {
						rep.violation(&format!("{prefix}content-type:duplicates-odd"), &format!("POST with content-types {ct:?}: status {} handlers {log:?}", out.status), case.clone());
					}
				}
			}
		}
	(class, case)
}

pub fn check(rep: &Reporter) {
	let thorough = rep.tier.thorough();
	rep.set_rule(
		"(A) 16 HTTP method tokens (the nine standard ones, FOO, and the near-POST tokens post / Post / pOsT / POSTS / POS / get) × content-type values (the six accepted spellings in every letter-case variant — all 2^k for k ≤ 15 letters, 4 styles per word for longer ones —, 22 near misses, missing header, duplicated header) with a fixed valid call as body, and (A') every method × {none, the accepted spellings in 3 letter-case styles, every near miss, 4 duplicate pairs} as raw HTTP/1.1 requests through Server::start over loopback TCP; (A-h2) the same requests (without CONNECT) over HTTP/2 with prior knowledge; (A'') the same methods × 6 paths with ProxyGetRequestLayer(/health) installed: only GET /health is redirected; (B) 19 bodies (calls, notification, batches, invalid, truncated, non-JSON, 0/1/126/127/128 leading blanks) × splits into consecutive chunks (quick: all splits into ≤3 chunks, thinned for bodies > 90 bytes, and the 4-chunk splits touching an end or on a stride; thorough: all splits into ≤4 chunks of bodies ≤ 64 bytes and into 5 chunks of bodies ≤ 40 bytes) × {no extra chunk, an empty chunk or a blank-only chunk inserted at every boundary incl. front and back} × Content-Length {absent, exact}; differential oracle: (status, body, invocation log) equals the single-frame request of the same bytes; the 1- and 2-chunk splits are repeated on a service whose max_request_body_size equals the body length; (B-h2) every 2-chunk split and a stride of the 3-chunk splits as HTTP/2 DATA frames against Server::start, with and without content-length, same differential. Distinct by (method, content-type) resp. (body, frame sequence, content-length); all non-trivial.",
	);
	rep.assume("the tower service Server uses per connection is called directly; hyper's own framing is not in the loop");
	let cfg = || srv::cfg_builder().build();

	// ---- (A) methods × content types
	let mut cts: Vec<Option<Vec<String>>> = vec![None];
	for a in ACCEPTED {
		for v in case_variants(a, if thorough { 15 } else { 10 }) {
			cts.push(Some(vec![v]));
		}
	}
	for n in NEAR {
		cts.push(Some(vec![n.to_string()]));
		for v in case_variants(n, 0).into_iter().take(8) {
			cts.push(Some(vec![v]));
		}
	}
	// duplicated header
	for a in ["application/json", "text/plain"] {
		for b in ["application/json", "text/plain", "application/json-rpc"] {
			cts.push(Some(vec![a.to_string(), b.to_string()]));
		}
	}
	rep.extra("content_type_values", json!(cts.len()));
	let ncase = cts.len() * METHODS.len();
	par_for(rep, ncase, 64, || (srv::rt(), srv::http_service(cfg())), |i, (rt, svc), local| {
		let ct = &cts[i / METHODS.len()];
		let method = METHODS[i % METHODS.len()];
		// non-POST methods do not look at the content type: one variant in 16 is enough for them (still every method × every base spelling)
		if method != "POST" && (i / METHODS.len()) % 16 != 0 {
			return;
		}
		let mut b = http::Request::builder().method(method).uri("/");
		if let Some(vals) = ct {
			for v in vals {
				b = b.header("content-type", v.as_str());
			}
		}
		let req = b.body(FramesBody::single(CALL)).unwrap();
		let (out, log) = rt.block_on(call(svc, req));
		let out = match out {
			Ok(o) => o,
			Err(e) => {
				rep.violation("service-error", &format!("{method} {ct:?}: service error {e}"), json!({"method": method, "content_type": ct}));
				return;
			}
		};
		let (class, case) = judge_a(rep, "", method, ct, out.status, &out.body, &log);
		local.case_unique(class);
		if i == 4242 {
			rep.sample(case);
		}
	});

	// ---- (A') the same through Server::start over loopback TCP (hyper parses the request line and the headers):
	//      every method × {no content type, the six accepted spellings in 3 letter-case styles, every near miss}
	{
		let mut cts2: Vec<Option<Vec<String>>> = vec![None];
		for a in ACCEPTED {
			cts2.push(Some(vec![a.to_string()]));
			cts2.push(Some(vec![a.to_uppercase()]));
			cts2.push(Some(vec![a.chars().enumerate().map(|(i, c)| if i % 2 == 0 { c.to_ascii_uppercase() } else { c }).collect()]));
		}
		for n in NEAR {
			cts2.push(Some(vec![n.to_string()]));
		}
		for a in ["application/json", "text/plain"] {
			for b in ["application/json", "text/plain"] {
				cts2.push(Some(vec![a.to_string(), b.to_string()]));
			}
		}
		let ncase = cts2.len() * METHODS.len();
		rep.extra("tcp_leg_cases", json!(ncase));
		par_for(
			rep,
			ncase,
			8,
			|| {
				let rt = srv::rt();
				let log: srv::InvLog = Default::default();
				let started = {
					let _e = rt.enter();
					let listener = std::net::TcpListener::bind("127.0.0.1:0").expect("bind loopback");
					listener.set_nonblocking(true).unwrap();
					let addr = listener.local_addr().unwrap();
					let server = jsonrpsee_server::Server::builder().set_config(cfg()).build_from_tcp(listener).expect("server");
					(addr, server.start(srv::std_module(log.clone())))
				};
				(rt, log, started)
			},
			|i, (rt, log, (addr, _handle)), local| {
				use tokio::io::{AsyncReadExt, AsyncWriteExt};
				let ct = &cts2[i / METHODS.len()];
				let method = METHODS[i % METHODS.len()];
				// CONNECT asks hyper for a tunnel and HEAD answers carry no body: both are still judged on status and handlers
				let mut req = format!("{method} / HTTP/1.1\r\nhost: localhost\r\nconnection: close\r\ncontent-length: {}\r\n", CALL.len());
				if let Some(vals) = ct {
					for v in vals {
						req.push_str(&format!("content-type: {v}\r\n"));
					}
				}
				req.push_str("\r\n");
				req.push_str(CALL);
				log.lock().unwrap().clear();
				let mut attempt = 0;
				let resp: Option<(u16, Vec<u8>)> = loop {
					attempt += 1;
					let r = rt.block_on(async {
						let mut io = tokio::net::TcpStream::connect(*addr).await.ok()?;
						io.write_all(req.as_bytes()).await.ok()?;
						let mut buf = Vec::new();
						let _ = tokio::time::timeout(std::time::Duration::from_secs(10), io.read_to_end(&mut buf)).await.ok()?;
						let text = String::from_utf8_lossy(&buf).to_string();
						let status: u16 = text.split_whitespace().nth(1)?.parse().ok()?;
						let body = match (text.find("\r\n\r\n"), text.find('{'), text.rfind('}')) {
							(Some(h), Some(a), Some(b)) if a > h && b >= a => text[a..=b].as_bytes().to_vec(),
							(Some(h), _, _) => text[h + 4..].as_bytes().to_vec(),
							_ => vec![],
						};
						Some((status, body))
					});
					if r.is_some() || attempt >= 3 {
						break r;
					}
					std::thread::sleep(std::time::Duration::from_millis(50 * attempt));
				};
				let Some((status, body)) = resp else {
					rep.machinery_error(format!("SRV-TCP leg: no HTTP response for {method} {ct:?}"));
					return;
				};
				let handlers = log.lock().unwrap().clone();
				// on the wire, optional whitespace around a header value is not part of the value (RFC 9110 §5.5): what the
				// server can see, and what the reference judges, is the trimmed value
				let seen: Option<Vec<String>> = ct.as_ref().map(|v| v.iter().map(|x| x.trim_matches([' ', '\t']).to_string()).collect());
				let (class, _case) = judge_a(rep, "tcp:", method, &seen, status, &body, &handlers);
				local.case_unique(&format!("tcp:{class}"));
			},
		);

		// ---- (A-h2) the same requests over HTTP/2 (prior knowledge) against Server::start: `:method` pseudo-header
		//      instead of a request line (CONNECT is a tunnel request in HTTP/2 and is left to the HTTP/1.1 leg)
		let h2_methods: Vec<&str> = METHODS.iter().copied().filter(|m| *m != "CONNECT").collect();
		let ncase = cts2.len() * h2_methods.len();
		rep.extra("h2_leg_cases", json!(ncase));
		par_for(
			rep,
			ncase,
			16,
			|| {
				let rt = srv::rt();
				let log: srv::InvLog = Default::default();
				let started = {
					let _e = rt.enter();
					let listener = std::net::TcpListener::bind("127.0.0.1:0").expect("bind loopback");
					listener.set_nonblocking(true).unwrap();
					let addr = listener.local_addr().unwrap();
					let server = jsonrpsee_server::Server::builder().set_config(cfg()).build_from_tcp(listener).expect("server");
					(addr, server.start(srv::std_module(log.clone())))
				};
				(rt, log, started, None::<srv::H2Conn>)
			},
			|i, (rt, log, (addr, _handle), conn), local| {
				let ct = &cts2[i / h2_methods.len()];
				let method = h2_methods[i % h2_methods.len()];
				log.lock().unwrap().clear();
				let mut out = None;
				for _attempt in 0..3 {
					if conn.is_none() {
						*conn = rt.block_on(srv::h2_connect(*addr)).ok();
					}
					let Some(c) = conn.as_mut() else { continue };
					let mut b = http::Request::builder().method(method).uri(format!("http://{addr}/"));
					if let Some(vals) = ct {
						for v in vals {
							b = b.header("content-type", v.as_str());
						}
					}
					let Ok(req) = b.body(FramesBody::single(CALL)) else { return };
					match rt.block_on(async { tokio::time::timeout(std::time::Duration::from_secs(10), c.request(req)).await }) {
						Ok(Ok(o)) => {
							out = Some(o);
							break;
						}
						_ => *conn = None,
					}
				}
				let Some(out) = out else {
					rep.machinery_error(format!("SRV-TCP HTTP/2 leg: no response for {method} {ct:?}"));
					return;
				};
				let handlers = log.lock().unwrap().clone();
				// HTTP/2 carries field values verbatim (no optional whitespace is stripped on the way): judged as sent
				let (class, _case) = judge_a(rep, "h2:", method, ct, out.status, &out.body, &handlers);
				local.case_unique(&format!("h2:{class}"));
			},
		);
	}

	// ---- (A'') with the optional ProxyGetRequestLayer installed (GET /health is redirected to a method by design):
	//      every other method on every path is still 405 and runs nothing; GET elsewhere is still 405
	{
		use jsonrpsee_server::middleware::http::ProxyGetRequestLayer;
		let rt = srv::rt();
		let _e = rt.enter();
		let log: srv::InvLog = Default::default();
		let (stop, _handle) = jsonrpsee_server::stop_channel();
		let layer = ProxyGetRequestLayer::new([("/health", "sync_echo")]).expect("layer");
		let mut svc = jsonrpsee_server::Server::builder().set_http_middleware(tower::ServiceBuilder::new().layer(layer)).to_service_builder().build(srv::std_module(log.clone()), stop);
		let mut local = crate::report::Local::default();
		for method in METHODS {
			for path in ["/", "/health", "/health?x=1", "/health/", "/other", "/HEALTH"] {
				for (with_body, ctype) in [(true, Some("application/json")), (false, None), (false, Some("application/json"))] {
					let mut b = http::Request::builder().method(method).uri(path);
					if let Some(ct) = ctype {
						b = b.header("content-type", ct);
					}
					let req = b.body(if with_body { FramesBody::single(CALL) } else { FramesBody::new(vec![]) }).unwrap();
					log.lock().unwrap().clear();
					let out = rt.block_on(srv::http_call(&mut svc, req));
					let handlers = log.lock().unwrap().clone();
					let case = json!({"engine":"ENUM","part":"A-proxy-get","method": method, "path": path, "body": with_body, "content_type": ctype, "status": out.as_ref().map(|o| o.status).ok(), "handlers": handlers});
					let Ok(out) = out else {
						rep.violation("service-error", &format!("{method} {path}: service error"), case);
						continue;
					};
					// the layer matches the path component (a query string does not change which path is asked for)
					let proxied = method == "GET" && path.split('?').next() == Some("/health");
					if method == "POST" {
						// POST is judged in part (A); here only that the layer leaves it alone
						let expect_ok = with_body && ctype.is_some();
						if expect_ok && (out.status != 200 || handlers != ["sync_echo"]) {
							rep.violation("proxy-get:post-changed", &format!("POST {path} with the layer installed: status {} handlers {handlers:?}", out.status), case.clone());
						}
					} else if proxied {
						if out.status != 200 || handlers != ["sync_echo"] {
							rep.violation("proxy-get:configured-path-not-proxied", &format!("GET {path}: status {} handlers {handlers:?}", out.status), case.clone());
						}
					} else if out.status != 405 || !handlers.is_empty() {
						rep.violation(&format!("proxy-get:method:{method}:not-405"), &format!("{method} {path} with ProxyGetRequestLayer(/health) installed: status {} handlers {handlers:?}, expected 405 and no handler", out.status), case.clone());
					}
					local.case_unique(if proxied { "proxy-get:proxied" } else { "proxy-get:other" });
				}
			}
		}
		rep.merge(local);
	}

	// ---- (B-h2) chunking over HTTP/2: the body as DATA frames, split at every position (and every pair of positions on a
	//      stride), with and without a content-length header; differential against the single-frame request
	{
		let bodies = bodies();
		let mut items: Vec<(usize, Vec<usize>)> = Vec::new();
		for (bi, b) in bodies.iter().enumerate() {
			let n = b.len();
			for a in 1..n {
				items.push((bi, vec![a]));
				for c in a + 1..n {
					if (a + 2 * c) % (if thorough { 3 } else { 11 }) == 0 || a == 1 || c == n - 1 {
						items.push((bi, vec![a, c]));
					}
				}
			}
		}
		rep.extra("h2_split_work_items", json!(items.len()));
		par_for(
			rep,
			items.len(),
			64,
			|| {
				let rt = srv::rt();
				let log: srv::InvLog = Default::default();
				let started = {
					let _e = rt.enter();
					let listener = std::net::TcpListener::bind("127.0.0.1:0").expect("bind loopback");
					listener.set_nonblocking(true).unwrap();
					let addr = listener.local_addr().unwrap();
					let server = jsonrpsee_server::Server::builder().set_config(cfg()).build_from_tcp(listener).expect("server");
					(addr, server.start(srv::std_module(log.clone())))
				};
				(rt, log, started, None::<srv::H2Conn>, std::collections::HashMap::<usize, (HttpOut, Vec<String>)>::new())
			},
			|i, (rt, log, (addr, _handle), conn, base), local| {
				let (bi, cuts) = &items[i];
				let body = &bodies[*bi];
				let addr = *addr;
				let send = |frames: Vec<Vec<u8>>, with_cl: bool, conn: &mut Option<srv::H2Conn>| -> Option<(HttpOut, Vec<String>)> {
					log.lock().unwrap().clear();
					for _attempt in 0..3 {
						if conn.is_none() {
							*conn = rt.block_on(srv::h2_connect(addr)).ok();
						}
						let Some(c) = conn.as_mut() else { continue };
						let total: usize = frames.iter().map(|f| f.len()).sum();
						let mut b = http::Request::builder().method("POST").uri(format!("http://{addr}/")).header("content-type", "application/json");
						if with_cl {
							b = b.header("content-length", total.to_string());
						}
						let fb = if with_cl { FramesBody::new(frames.clone()) } else { FramesBody::unsized_frames(frames.clone()) };
						let Ok(req) = b.body(fb) else { return None };
						match rt.block_on(async { tokio::time::timeout(std::time::Duration::from_secs(10), c.request(req)).await }) {
							Ok(Ok(o)) => return Some((o, log.lock().unwrap().clone())),
							_ => *conn = None,
						}
					}
					None
				};
				if !base.contains_key(bi) {
					let Some(b) = send(vec![body.clone()], false, conn) else {
						rep.machinery_error("HTTP/2 chunking leg: no response for a baseline request".into());
						return;
					};
					base.insert(*bi, b);
				}
				let (bout, blog) = base.get(bi).unwrap().clone();
				let mut frames: Vec<Vec<u8>> = Vec::new();
				let mut prev = 0;
				for c in cuts.iter().chain(std::iter::once(&body.len())) {
					frames.push(body[prev..*c].to_vec());
					prev = *c;
				}
				for with_cl in [false, true] {
					let Some((out, hl)) = send(frames.clone(), with_cl, conn) else {
						rep.machinery_error("HTTP/2 chunking leg: no response".into());
						continue;
					};
					let same = out == bout && hl == blog;
					if !same {
						rep.violation(
							&format!("h2:chunking:plain-split{}", if with_cl { ":with-content-length" } else { "" }),
							&format!(
								"HTTP/2: body {:?} sent as DATA frames {:?}: status {} body {:?} handlers {hl:?}; as one frame: status {} body {:?} handlers {blog:?}",
								String::from_utf8_lossy(body),
								frames.iter().map(|x| String::from_utf8_lossy(x).to_string()).collect::<Vec<_>>(),
								out.status,
								String::from_utf8_lossy(&out.body),
								bout.status,
								String::from_utf8_lossy(&bout.body)
							),
							json!({"engine":"ENUM","part":"B-h2","body": String::from_utf8_lossy(body), "frames": frames.iter().map(|x| String::from_utf8_lossy(x).to_string()).collect::<Vec<_>>(), "content_length": with_cl}),
						);
					}
					local.case_unique(if same { "h2:same-as-single-frame" } else { "h2:differs" });
				}
			},
		);
	}

	// ---- (B) chunking differential
	let bodies = bodies();
	// work items: (body index, split points). Quick: every 1- and 2-cut split (pairs thinned in the middle of long bodies)
	// and the 3-cut splits that touch an end or fall on a stride; thorough: every 1-, 2- and 3-cut split of bodies up to
	// 64 bytes (strided beyond), and every 4-cut split (5 chunks) of bodies up to 40 bytes.
	let mut items: Vec<(usize, Vec<usize>)> = Vec::new();
	for (bi, b) in bodies.iter().enumerate() {
		let n = b.len();
		items.push((bi, vec![]));
		for a in 1..n {
			items.push((bi, vec![a]));
			for c in a + 1..n {
				if !thorough && n > 90 && a > 4 && c < n - 4 && (a + c) % 3 != 0 {
					continue;
				}
				items.push((bi, vec![a, c]));
				for d in c + 1..n {
					let all = thorough && n <= 64;
					if !all && (a + c + d) % 7 != 0 && !(a <= 2 || d >= n - 2) {
						continue;
					}
					items.push((bi, vec![a, c, d]));
					if thorough && n <= 40 {
						for e in d + 1..n {
							items.push((bi, vec![a, c, d, e]));
						}
					}
				}
			}
		}
	}
	rep.extra("split_work_items", json!(items.len()));
	par_for(rep, items.len(), 32, || (srv::rt(), srv::http_service(cfg()), std::collections::HashMap::<usize, (HttpOut, Vec<String>)>::new()), |i, (rt, svc, base), local| {
		let (bi, cuts) = &items[i];
		let body = &bodies[*bi];
		if !base.contains_key(bi) {
			let (o, l) = rt.block_on(call(svc, srv::post(vec![body.clone()], None)));
			base.insert(*bi, (o.expect("baseline call"), l));
		}
		let (bout, blog) = base.get(bi).unwrap().clone();
		let mut frames: Vec<Vec<u8>> = Vec::new();
		let mut prev = 0;
		for c in cuts.iter().chain(std::iter::once(&body.len())) {
			frames.push(body[prev..*c].to_vec());
			prev = *c;
		}
		// variants: none, or an empty / blank chunk at each boundary
		let nb = frames.len() + 1;
		for var in 0..(1 + 2 * nb) {
			let mut f = frames.clone();
			let mut ins = "none";
			let mut at = 0usize;
			if var > 0 {
				at = (var - 1) / 2;
				let blank = (var - 1) % 2 == 1;
				ins = if blank { "blank" } else { "empty" };
				// a blank chunk in the middle of the text would change the bytes inside a token; only insert blanks where JSON
				// allows whitespace: at the very front or the very back of the body
				if blank && at != 0 && at != frames.len() {
					continue;
				}
				f.insert(at, if blank { b" ".to_vec() } else { vec![] });
			}
			for with_cl in [false, true] {
				let total: usize = f.iter().map(|x| x.len()).sum();
				let req = srv::post(f.clone(), if with_cl { Some(total.to_string()) } else { None });
				let (out, log) = rt.block_on(call(svc, req));
				let out = match out {
					Ok(o) => o,
					Err(e) => {
						rep.violation("service-error", &format!("split call failed: {e}"), json!({"body": String::from_utf8_lossy(body)}));
						continue;
					}
				};
				// a blank chunk at the front/back adds one whitespace byte to the body: compare with the baseline of those bytes
				let (eout, elog) = if ins == "blank" {
					let mut nb2 = body.clone();
					if at == 0 { nb2.insert(0, b' ') } else { nb2.push(b' ') };
					let (o, l) = rt.block_on(call(svc, srv::post(vec![nb2], None)));
					(o.expect("baseline"), l)
				} else {
					(bout.clone(), blog.clone())
				};
				let same = out == eout && log == elog;
				let class = if same { "same-as-single-frame" } else { "differs" };
				if !same {
					let first = &f[0];
					let feature = if first.is_empty() {
						"empty-first-frame"
					} else if first.iter().all(|b| b.is_ascii_whitespace()) {
						"blank-first-frame"
					} else if f.iter().any(|x| x.is_empty()) {
						"empty-inner-frame"
					} else {
						"plain-split"
					};
					rep.violation(
						&format!("chunking:{feature}{}", if with_cl { ":with-content-length" } else { "" }),
						&format!(
							"body {:?} sent as frames {:?}: status {} body {:?} handlers {log:?}; as one frame: status {} body {:?} handlers {elog:?}",
							String::from_utf8_lossy(body),
							f.iter().map(|x| String::from_utf8_lossy(x).to_string()).collect::<Vec<_>>(),
							out.status,
							String::from_utf8_lossy(&out.body),
							eout.status,
							String::from_utf8_lossy(&eout.body)
						),
						json!({"engine":"ENUM","part":"B","body": String::from_utf8_lossy(body), "frames": f.iter().map(|x| String::from_utf8_lossy(x).to_string()).collect::<Vec<_>>(), "content_length": with_cl}),
					);
				}
				local.case_unique(class);
			}
		}
		// the same with max_request_body_size equal to the body length: the body is within the limit, so the answer must
		// still not depend on the split or on the presence of Content-Length (splits into at most two chunks)
		if cuts.len() <= 1 && !body.is_empty() {
			let mut exact = srv::http_service(srv::cfg_builder().max_request_body_size(body.len() as u32).build());
			let (bo, bl) = rt.block_on(call(&mut exact, srv::post(vec![body.clone()], None)));
			if let Ok(bo) = bo {
				for with_cl in [false, true] {
					let req = srv::post(frames.clone(), if with_cl { Some(body.len().to_string()) } else { None });
					let (out, log) = rt.block_on(call(&mut exact, req));
					let same = matches!(&out, Ok(o) if *o == bo) && log == bl;
					if !same {
						rep.violation(
							&format!("chunking:limit-equals-body-length{}", if with_cl { ":with-content-length" } else { "" }),
							&format!(
								"max_request_body_size = body length = {}: frames {:?} answered {:?} (handlers {log:?}); one frame without Content-Length: status {} (handlers {bl:?})",
								body.len(),
								frames.iter().map(|x| String::from_utf8_lossy(x).to_string()).collect::<Vec<_>>(),
								out.as_ref().map(|o| o.status),
								bo.status
							),
							json!({"engine":"ENUM","part":"B-exact-limit","body": String::from_utf8_lossy(body), "frames": frames.iter().map(|x| String::from_utf8_lossy(x).to_string()).collect::<Vec<_>>(), "content_length": with_cl}),
						);
					}
					local.case_unique(if same { "exact-limit:same" } else { "exact-limit:differs" });
				}
			}
		}
		if i == 1000 {
			rep.sample(json!({"part":"B","body": String::from_utf8_lossy(body), "cuts": cuts}));
		}
	});
}
