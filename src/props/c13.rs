//! C13 — method registry: names are unique and failed registrations change nothing (HIST, PURE RpcModule).

use crate::hist::{Step, bfs};
use crate::report::Reporter;
use jsonrpsee_core::server::RpcModule;
use jsonrpsee_types::ErrorObjectOwned;
use serde_json::{Value, json};
use std::collections::BTreeMap;

const NAMES: [&str; 3] = ["a", "b", "c"];
const PROBES: [&str; 4] = ["a", "b", "c", "z"];

#[derive(Clone, Debug, PartialEq)]
enum Op {
	Sync(usize),
	Async(usize),
	Blocking(usize),
	Sub(usize, usize),
	SubRaw(usize, usize),
	Alias(usize, usize),
	/// merge a module built from these registrations: (kind, name[, name2])
	Merge(usize),
	/// the same, but a clone of the merged-in module is alive during the merge (clones share their table until written to)
	MergeShared(usize),
	/// merge a clone of the oldest kept clone into the live module
	MergeKept,
	Remove(usize),
	CloneKeep,
	/// drop the live module and continue with the oldest kept clone (non-initial start states)
	SwapToClone,
}

/// contents of the "other" modules for Merge
const OTHERS: [&[(u8, usize, usize)]; 8] = [
	&[],
	&[(0, 0, 0)],
	&[(0, 1, 0)],
	&[(0, 0, 0), (1, 1, 0)],
	&[(3, 0, 1)],
	&[(0, 2, 0), (0, 1, 0)],
	&[(3, 1, 2)],
	&[(2, 2, 0)],
];

#[derive(Clone, Debug, PartialEq, Eq, Hash, PartialOrd, Ord)]
enum Bind {
	Method(u32),
	Sub(u32),
	Unsub,
}

type Ref = BTreeMap<&'static str, Bind>;

fn tag_result(tag: u32) -> u32 {
	tag
}

fn reg(m: &mut RpcModule<()>, kind: u8, x: usize, y: usize, tag: u32) -> bool {
	match kind {
		0 => m.register_method(NAMES[x], move |_, _, _| tag_result(tag)).is_ok(),
		1 => m.register_async_method(NAMES[x], move |_, _, _| async move { tag_result(tag) }).is_ok(),
		2 => m.register_blocking_method(NAMES[x], move |_, _, _| tag_result(tag)).is_ok(),
		3 => m
			.register_subscription(NAMES[x], "notif", NAMES[y], move |_, pending, _, _| async move {
				pending.reject(ErrorObjectOwned::owned::<()>(tag as i32, "sub", None)).await;
			})
			.is_ok(),
		_ => m
			.register_subscription_raw(NAMES[x], "notif", NAMES[y], move |_, pending, _, _| {
				tokio::spawn(pending.reject(ErrorObjectOwned::owned::<()>(tag as i32, "sub", None)));
			})
			.is_ok(),
	}
}

fn ref_reg(r: &mut Ref, kind: u8, x: usize, y: usize, tag: u32) -> bool {
	if kind < 3 {
		if r.contains_key(NAMES[x]) {
			return false;
		}
		r.insert(NAMES[x], Bind::Method(tag));
		true
	} else {
		if x == y || r.contains_key(NAMES[x]) || r.contains_key(NAMES[y]) {
			return false;
		}
		r.insert(NAMES[x], Bind::Sub(tag));
		r.insert(NAMES[y], Bind::Unsub);
		true
	}
}

struct Sys {
	live: RpcModule<()>,
	kept: Vec<RpcModule<()>>,
}

struct RefSys {
	live: Ref,
	kept: Vec<Ref>,
}

/// apply op; returns (enabled, impl result, reference result)
fn apply(sys: &mut Sys, rf: &mut RefSys, op: &Op, idx: usize) -> Option<(bool, bool)> {
	let tag = (idx as u32 + 1) * 10;
	match op {
		Op::Sync(x) => Some((reg(&mut sys.live, 0, *x, 0, tag), ref_reg(&mut rf.live, 0, *x, 0, tag))),
		Op::Async(x) => Some((reg(&mut sys.live, 1, *x, 0, tag), ref_reg(&mut rf.live, 1, *x, 0, tag))),
		Op::Blocking(x) => Some((reg(&mut sys.live, 2, *x, 0, tag), ref_reg(&mut rf.live, 2, *x, 0, tag))),
		Op::Sub(x, y) => Some((reg(&mut sys.live, 3, *x, *y, tag), ref_reg(&mut rf.live, 3, *x, *y, tag))),
		Op::SubRaw(x, y) => Some((reg(&mut sys.live, 4, *x, *y, tag), ref_reg(&mut rf.live, 4, *x, *y, tag))),
		Op::Alias(x, y) => {
			let got = sys.live.register_alias(NAMES[*x], NAMES[*y]).is_ok();
			let exp = if rf.live.contains_key(NAMES[*x]) {
				false
			} else if let Some(b) = rf.live.get(NAMES[*y]).cloned() {
				rf.live.insert(NAMES[*x], b);
				true
			} else {
				false
			};
			Some((got, exp))
		}
		Op::Merge(o) => {
			let mut other = RpcModule::new(());
			let mut oref = Ref::new();
			for (k, (kind, x, y)) in OTHERS[*o].iter().enumerate() {
				let t = tag + 1 + k as u32;
				let a = reg(&mut other, *kind, *x, *y, t);
				let b = ref_reg(&mut oref, *kind, *x, *y, t);
				assert_eq!(a, b, "building the other module");
			}
			let got = sys.live.merge(other).is_ok();
			let exp = if oref.keys().any(|k| rf.live.contains_key(k)) {
				false
			} else {
				rf.live.extend(oref);
				true
			};
			Some((got, exp))
		}
		Op::MergeShared(o) => {
			let mut other = RpcModule::new(());
			let mut oref = Ref::new();
			for (k, (kind, x, y)) in OTHERS[*o].iter().enumerate() {
				let t = tag + 1 + k as u32;
				let a = reg(&mut other, *kind, *x, *y, t);
				let b = ref_reg(&mut oref, *kind, *x, *y, t);
				assert_eq!(a, b, "building the other module");
			}
			let witness = other.clone();
			let got = sys.live.merge(other).is_ok();
			// the surviving clone of the source is untouched either way
			let mut names: Vec<&str> = witness.method_names().collect();
			names.sort();
			let want: Vec<&str> = oref.keys().copied().collect();
			assert_eq!(names, want, "the clone of a merged-in module lost or gained names");
			drop(witness);
			let exp = if oref.keys().any(|k| rf.live.contains_key(k)) {
				false
			} else {
				rf.live.extend(oref);
				true
			};
			Some((got, exp))
		}
		Op::MergeKept => {
			if sys.kept.is_empty() {
				return None;
			}
			let got = sys.live.merge(sys.kept[0].clone()).is_ok();
			let src = rf.kept[0].clone();
			let exp = if src.keys().any(|k| rf.live.contains_key(k)) {
				false
			} else {
				rf.live.extend(src);
				true
			};
			Some((got, exp))
		}
		Op::Remove(x) => {
			let got = sys.live.remove_method(NAMES[*x]).is_some();
			let exp = rf.live.remove(NAMES[*x]).is_some();
			Some((got, exp))
		}
		Op::CloneKeep => {
			if sys.kept.len() >= 2 {
				return None;
			}
			sys.kept.push(sys.live.clone());
			rf.kept.push(rf.live.clone());
			Some((true, true))
		}
		Op::SwapToClone => {
			if sys.kept.is_empty() {
				return None;
			}
			sys.live = sys.kept.remove(0);
			rf.live = rf.kept.remove(0);
			Some((true, true))
		}
	}
}

/// observe one module: for each probe name the call outcome, normalised to a Bind / unbound
fn observe(rt: &tokio::runtime::Runtime, m: &RpcModule<()>) -> (Vec<&'static str>, Vec<Option<Result<Bind, String>>>) {
	let mut names: Vec<&'static str> = m.method_names().collect();
	names.sort();
	let calls = PROBES
		.iter()
		.map(|p| {
			let req = format!(r#"{{"jsonrpc":"2.0","id":1,"method":"{p}","params":[1]}}"#);
			let r = rt.block_on(async { m.raw_json_request(&req, 4).await });
			let (resp, _rx) = match r {
				Ok(x) => x,
				Err(e) => return Some(Err(format!("raw_json_request failed: {e}"))),
			};
			let v: Value = serde_json::from_str(resp.get()).unwrap();
			if let Some(res) = v.get("result") {
				if let Some(n) = res.as_u64() {
					Some(Ok(Bind::Method(n as u32)))
				} else if res.is_boolean() {
					Some(Ok(Bind::Unsub))
				} else {
					Some(Err(format!("unexpected result {res}")))
				}
			} else {
				let code = v["error"]["code"].as_i64().unwrap_or(0);
				if code == -32601 {
					None
				} else if code > 0 {
					Some(Ok(Bind::Sub(code as u32)))
				} else {
					Some(Err(format!("unexpected error {}", v["error"])))
				}
			}
		})
		.collect();
	(names, calls)
}

fn canon(rf: &RefSys) -> Vec<Vec<(&'static str, u8, u32)>> {
	// rename tags in order of first appearance so that histories differing only in tag numbers coincide
	let mut ren: BTreeMap<u32, u32> = BTreeMap::new();
	let mut out = Vec::new();
	for m in std::iter::once(&rf.live).chain(rf.kept.iter()) {
		let mut v = Vec::new();
		for (k, b) in m {
			let (kind, t) = match b {
				Bind::Method(t) => (0u8, *t),
				Bind::Sub(t) => (1u8, *t),
				Bind::Unsub => (2u8, 0),
			};
			let t = if kind == 2 {
				0
			} else {
				let n = ren.len() as u32 + 1;
				*ren.entry(t).or_insert(n)
			};
			v.push((*k, kind, t));
		}
		out.push(v);
	}
	out
}

pub fn check(rep: &Reporter) {
	let mut menu = Vec::new();
	for x in 0..3 {
		menu.push(Op::Sync(x));
		menu.push(Op::Async(x));
		menu.push(Op::Blocking(x));
		menu.push(Op::Remove(x));
		for y in 0..3 {
			menu.push(Op::Sub(x, y));
			menu.push(Op::SubRaw(x, y));
			menu.push(Op::Alias(x, y));
		}
	}
	for o in 0..OTHERS.len() {
		menu.push(Op::Merge(o));
	}
	for o in [1, 3, 4, 6] {
		menu.push(Op::MergeShared(o));
	}
	menu.push(Op::MergeKept);
	menu.push(Op::CloneKeep);
	menu.push(Op::SwapToClone);
	let max_depth = if rep.tier.thorough() { 12 } else { 8 };
	rep.set_rule(&format!(
		"BFS over histories of {{register sync/async/blocking(x), register_subscription(x,y) and _raw incl. x=y, register_alias(x,y), merge(one of {} prepared modules; 4 of them also while a clone of the merged-in module is alive; a clone of a kept clone), remove_method(x), clone-and-keep (≤2), continue-from-clone}} with x,y ∈ {{a,b,c}} up to depth {max_depth}; state key = name→(kind, handler identity up to renaming) of the live module and every kept clone; after every transition the real module(s) are observed (Ok/Err of the op, method_names(), raw_json_request to a,b,c and an unregistered name on the live module and every clone) and compared with a BTreeMap reference. Every transition is a distinct (state, op) pair.",
		OTHERS.len()
	));
	rep.assume("handler identity is observed through the value the handler returns (methods: a tag; subscriptions: the code of the rejection they send); unsubscribe handlers are identified by kind only");
	let init = canon(&RefSys { live: Ref::new(), kept: vec![] });
	let st = bfs(
		rep,
		"RpcModule",
		init,
		&menu,
		max_depth,
		|| tokio::runtime::Builder::new_current_thread().enable_all().build().unwrap(),
		|rt, hist| {
			let _g = rt.enter();
			let mut sys = Sys { live: RpcModule::new(()), kept: vec![] };
			let mut rf = RefSys { live: Ref::new(), kept: vec![] };
			let mut violations = Vec::new();
			let last = hist.len() - 1;
			for (i, op) in hist.iter().enumerate() {
				let Some((got, exp)) = apply(&mut sys, &mut rf, op, i) else {
					return Step { key: None, violations };
				};
				if i == last && got != exp {
					let opk = format!("{op:?}");
					let opk = opk.split('(').next().unwrap().to_string();
					violations.push((
						format!("op-result:{opk}:{}", if got { "unexpected-ok" } else { "unexpected-err" }),
						format!("{op:?} returned {} but the reference says {}", if got { "Ok" } else { "Err" }, if exp { "Ok" } else { "Err" }),
					));
				}
			}
			// observe all module values
			let last_op = format!("{:?}", hist[last]);
			let last_kind = last_op.split('(').next().unwrap().to_string();
			for (mi, (m, r)) in std::iter::once((&sys.live, &rf.live)).chain(sys.kept.iter().zip(rf.kept.iter())).enumerate() {
				let which = if mi == 0 { "live" } else { "clone" };
				let (names, calls) = observe(rt, m);
				let exp_names: Vec<&'static str> = r.keys().copied().collect();
				if names != exp_names {
					violations.push((
						format!("method_names:{which}:after-{last_kind}"),
						format!("after {last_op}: method_names() of the {which} module = {names:?}, reference {exp_names:?}"),
					));
				}
				for (p, c) in PROBES.iter().zip(calls) {
					let exp = r.get(p).cloned();
					let ok = match (&c, &exp) {
						(None, None) => true,
						(Some(Ok(b)), Some(e)) => b == e,
						_ => false,
					};
					if !ok {
						violations.push((
							format!("dispatch:{which}:after-{last_kind}"),
							format!("after {last_op}: calling {p:?} on the {which} module gave {c:?}, reference binding {exp:?}"),
						));
					}
				}
			}
			Step { key: Some(canon(&rf)), violations }
		},
	);
	rep.extra("fixpoint", json!(st.fixpoint));
}
