//! C15 — wire types round-trip; only valid JSON-RPC 2.0 is emitted (ENUM, PURE).

use crate::par::{par_for, seq_count, seq_decode};
use crate::refmodel::{PJ, wellformed_response};
use crate::report::{Local, Reporter, hash_of};
use jsonrpsee_types::error::ErrorCode;
use jsonrpsee_types::response::{SubscriptionPayload, SubscriptionPayloadError};
use jsonrpsee_types::{ErrorObject, ErrorObjectOwned, Id, Notification, Request, Response, ResponsePayload, SubscriptionId};
use serde_json::value::RawValue;
use serde_json::{Value, json};
use std::borrow::Cow;
use std::sync::atomic::{AtomicU64, Ordering};

const NAMED: [(ErrorCode, i32); 7] = [
	(ErrorCode::ParseError, -32700),
	(ErrorCode::OversizedRequest, -32007),
	(ErrorCode::InvalidRequest, -32600),
	(ErrorCode::MethodNotFound, -32601),
	(ErrorCode::ServerIsBusy, -32009),
	(ErrorCode::InvalidParams, -32602),
	(ErrorCode::InternalError, -32603),
];

fn kind_name(k: &ErrorCode) -> String {
	match k {
		ErrorCode::ServerError(_) => "ServerError".into(),
		k => format!("{k:?}"),
	}
}

/// (a) all 2^32 codes
fn codes(rep: &Reporter) {
	// named kinds: code() is what the table says, and back
	for (k, c) in NAMED {
		if k.code() != c {
			rep.violation(&format!("errorcode:kind-code:{}", kind_name(&k)), &format!("{k:?}.code() = {} expected {c}", k.code()), json!({"kind": format!("{k:?}")}));
		}
		let back = ErrorCode::from(k.code());
		if back != k {
			rep.violation(
				&format!("errorcode:kind-roundtrip:{}", kind_name(&k)),
				&format!("ErrorCode::from({k:?}.code()) = {back:?}, not the same kind"),
				json!({"engine":"ENUM","part":"codes","kind": format!("{k:?}"), "code": k.code(), "observed": format!("{back:?}")}),
			);
		}
	}
	let named_codes: Vec<i32> = NAMED.iter().map(|(_, c)| *c).collect();
	let total: u64 = 1 << 32;
	let chunks = 4096usize;
	let per = (total / chunks as u64) as u64;
	let kinds_seen = AtomicU64::new(0);
	let serde_all = rep.tier.thorough();
	par_for(
		rep,
		chunks,
		1,
		|| (),
		|ci, _, local: &mut Local| {
			let lo = ci as u64 * per;
			let mut mask = 0u64;
			for u in lo..lo + per {
				let c = u as u32 as i32;
				let k = ErrorCode::from(c);
				if k.code() != c {
					rep.violation(
						"errorcode:int-roundtrip",
						&format!("ErrorCode::from({c}).code() = {}", k.code()),
						json!({"engine":"ENUM","part":"codes","code": c, "observed_kind": format!("{k:?}")}),
					);
				}
				match k {
					ErrorCode::ServerError(x) => {
						mask |= 1 << 7;
						if x != c {
							rep.violation("errorcode:servererror-payload", &format!("from({c}) = ServerError({x})"), json!({"code": c}));
						}
					}
					named => {
						let idx = NAMED.iter().position(|(n, _)| *n == named).unwrap_or(63);
						mask |= 1 << idx;
					}
				}
				// ServerError(c) for every c that is not a named code maps back to itself
				if !named_codes.contains(&c) {
					let se = ErrorCode::ServerError(c);
					if ErrorCode::from(se.code()) != se {
						rep.violation(
							"errorcode:servererror-roundtrip",
							&format!("ErrorCode::from(ServerError({c}).code()) != ServerError({c})"),
							json!({"engine":"ENUM","part":"codes","code": c}),
						);
					}
				}
				// serde round trip of an error object with this code
				let near_named = named_codes.iter().any(|n| (c as i64 - *n as i64).abs() <= 3);
				if serde_all || near_named || c % 65537 == 0 || c == i32::MIN || c == i32::MAX || (-2..=2).contains(&c) {
					let eo = ErrorObject::owned::<()>(c, "m", None);
					let txt = serde_json::to_string(&eo).unwrap();
					match serde_json::from_str::<ErrorObjectOwned>(&txt) {
						Ok(b) if b == eo && b.code() == c && serde_json::to_string(&b).unwrap() == txt => {}
						other => rep.violation(
							"errorobject:serde-roundtrip",
							&format!("ErrorObject code {c}: {txt} parsed back as {other:?}"),
							json!({"engine":"ENUM","part":"codes","code": c, "text": txt}),
						),
					}
					local.case_unique("errorobject-roundtrip"); // each code is visited once: distinct by construction
				}
			}
			kinds_seen.fetch_or(mask, Ordering::Relaxed);
		},
	);
	rep.extra("i32_codes_checked", json!(total));
	rep.extra("error_kinds_reached_from_integers", json!(kinds_seen.load(Ordering::Relaxed).count_ones()));
}

const ALPHA: [&str; 20] =
	["a", "1", "\"", "\\", "\n", "\u{0}", "/", "é", "\u{20ac}", "\u{1F600}", "e\u{301}", " ", "{", "]", ",", ":", "\u{7f}", "\u{2028}", "n", "\u{1b}"];

fn strings(maxlen: usize) -> Vec<String> {
	let n = seq_count(ALPHA.len(), maxlen);
	(0..n).map(|i| seq_decode(i, ALPHA.len(), maxlen).into_iter().map(|k| ALPHA[k]).collect::<String>()).collect()
}

const NUMS: [u64; 12] = [0, 1, 9, 10, 255, 1 << 32, (1 << 53) - 1, 1 << 53, (1 << 53) + 1, 1 << 63, u64::MAX - 1, u64::MAX];

macro_rules! roundtrip {
	($rep:expr, $local:expr, $kind:expr, $ty:ty, $v:expr, $detail:expr) => {{
		let rep: &Reporter = $rep;
		let kind: &str = $kind;
		let detail: &str = $detail;
		let v = $v;
		match serde_json::to_string(v) {
			Err(e) => rep.violation(&format!("roundtrip:{kind}:serialize-failed"), &format!("{detail}: {e}"), json!({"kind": kind, "value": detail})),
			Ok(txt) => {
				let class;
				match serde_json::from_str::<$ty>(&txt) {
					Ok(b) => {
						if *v != b {
							class = "unequal";
							rep.violation(
								&format!("roundtrip:{kind}:unequal"),
								&format!("{kind} {detail} serialised as {txt} parses back as {b:?}"),
								json!({"engine":"ENUM","part":"roundtrip","kind": kind, "value": detail, "text": txt}),
							);
						} else {
							let txt2 = serde_json::to_string(&b).unwrap_or_default();
							if txt2 != txt {
								class = "bytes-differ";
								rep.violation(
									&format!("roundtrip:{kind}:bytes"),
									&format!("{kind} {detail}: {txt} re-serialises as {txt2}"),
									json!({"engine":"ENUM","part":"roundtrip","kind": kind, "value": detail, "text": txt, "text2": txt2}),
								);
							} else {
								class = "ok";
							}
						}
					}
					Err(e) => {
						class = "reparse-failed";
						rep.violation(
							&format!("roundtrip:{kind}:reparse-failed"),
							&format!("{kind} {detail} serialised as {txt} does not parse back: {e}"),
							json!({"engine":"ENUM","part":"roundtrip","kind": kind, "value": detail, "text": txt}),
						);
					}
				}
				$local.case(hash_of(&(kind, &txt)), true, &format!("roundtrip:{kind}:{class}"));
			}
		}
	}};
}

fn ids_for(strs: &[String]) -> Vec<Id<'static>> {
	let mut v = vec![Id::Null];
	v.extend(NUMS.iter().map(|n| Id::Number(*n)));
	v.extend(strs.iter().map(|s| Id::Str(Cow::Owned(s.clone()))));
	v
}

/// (b) round trips
fn roundtrips(rep: &Reporter) {
	let maxlen = if rep.tier.thorough() { 4 } else { 3 };
	let strs = strings(maxlen);
	let ids = ids_for(&strs);
	// ids and subscription ids
	par_for(rep, ids.len(), 64, || (), |i, _, local| {
		let id = &ids[i];
		roundtrip!(rep, local, "Id", Id, id, &format!("{id:?}"));
		let sid = match id {
			Id::Null => return,
			Id::Number(n) => SubscriptionId::Num(*n),
			Id::Str(s) => SubscriptionId::Str(s.clone()),
		};
		roundtrip!(rep, local, "SubscriptionId", SubscriptionId, &sid, &format!("{sid:?}"));
		// emitted id text must equal what an independent encoder writes
		let exp = match id {
			Id::Null => "null".to_string(),
			Id::Number(n) => n.to_string(),
			Id::Str(s) => serde_json::to_string(&Value::String(s.to_string())).unwrap(),
		};
		let got = serde_json::to_string(id).unwrap();
		if got != exp {
			rep.violation("roundtrip:Id:encoding", &format!("{id:?} encoded as {got}, expected {exp}"), json!({"id": format!("{id:?}")}));
		}
	});

	// composite messages: smaller id set, payload alphabet
	let strs2 = strings(2);
	let ids2 = ids_for(&strs2);
	let mut deep = String::new();
	for _ in 0..100 {
		deep.push('[');
	}
	for _ in 0..100 {
		deep.push(']');
	}
	let payloads: Vec<String> = vec![
		"null".into(),
		"0".into(),
		"-1".into(),
		"1.5".into(),
		"1e308".into(),
		"18446744073709551615".into(),
		"9007199254740993".into(),
		"0.1".into(),
		"true".into(),
		"\"\"".into(),
		"\"a\\\"b\\\\c\\n\\u0000\"".into(),
		"\"\u{1F600}é\"".into(),
		"[]".into(),
		"{}".into(),
		"[1,[2,[3,{\"a\":[null]}]]]".into(),
		"{\"a\":1,\"b\":{\"c\":[true,false]},\"jsonrpc\":\"1.0\",\"id\":7}".into(),
		deep,
	];
	let methods: Vec<String> = vec!["m".into(), "".into(), "say_hello".into(), "a\"b".into(), "é/\u{1F600}".into(), "rpc.x".into()];
	let codes: [i32; 9] = [-32700, -32600, -32601, -32602, -32603, -32009, -32000, 0, i32::MAX];
	let n = ids2.len();
	par_for(rep, n, 8, || (), |i, _, local| {
		let id = &ids2[i];
		for (mi, m) in methods.iter().enumerate() {
			for (pi, p) in payloads.iter().map(Some).chain(std::iter::once(None)).enumerate() {
				// keep the product tractable: full payload sweep for the first 40 ids, rotating subset afterwards
				if i >= 40 && (pi + mi + i) % 6 != 0 {
					continue;
				}
				// `"params":null` is the library's spelling of "no params" (Option), so null is not a params value of its own
				if p.map_or(false, |p| p == "null") {
					continue;
				}
				let raw = p.map(|p| RawValue::from_string(p.clone()).unwrap());
				let req = Request::owned(m.clone(), raw.clone(), id.clone());
				let txt = serde_json::to_string(&req).unwrap();
				let class;
				match serde_json::from_str::<Request>(&txt) {
					Ok(b) => {
						let same = b.id == *id && b.method == *m && b.params.as_ref().map(|x| x.get().to_string()) == p.cloned();
						if !same {
							class = "unequal";
							rep.violation("roundtrip:Request:unequal", &format!("{txt} parsed back as {b:?}"), json!({"engine":"ENUM","part":"roundtrip","kind":"Request","text": txt}));
						} else if serde_json::to_string(&b).unwrap() != txt {
							class = "bytes";
							rep.violation("roundtrip:Request:bytes", &format!("{txt} re-serialises differently"), json!({"kind":"Request","text": txt}));
						} else {
							class = "ok";
						}
					}
					Err(e) => {
						class = "reparse-failed";
						rep.violation("roundtrip:Request:reparse-failed", &format!("{txt}: {e}"), json!({"engine":"ENUM","part":"roundtrip","kind":"Request","text": txt}));
					}
				}
				local.case(hash_of(&("req", &txt)), true, &format!("roundtrip:Request:{class}"));
				// emitted request is valid JSON-RPC 2.0
				match PJ::parse(txt.as_bytes()) {
					Some(o) => {
						let ok = matches!(o.members("jsonrpc").as_slice(), [PJ::Str(s)] if s == "2.0")
							&& matches!(o.members("method").as_slice(), [PJ::Str(s)] if s == m)
							&& o.members("id").len() == 1
							&& o.members("params").len() == p.is_some() as usize
							&& !o.has_duplicate_member();
						if !ok {
							rep.violation("emit:Request:not-jsonrpc2", &format!("emitted request {txt} is not a JSON-RPC 2.0 request"), json!({"text": txt}));
						}
					}
					None => rep.violation("emit:Request:not-json", &format!("emitted request {txt} is not JSON"), json!({"text": txt})),
				}
				// notification
				if let Some(p) = p {
					let raw = RawValue::from_string(p.clone()).unwrap();
					let n: Notification<Box<RawValue>> = Notification::new(Cow::Owned(m.clone()), raw);
					let ntxt = serde_json::to_string(&n).unwrap();
					match serde_json::from_str::<Notification<Box<RawValue>>>(&ntxt) {
						Ok(b) if b.method == *m && b.params.get() == p && serde_json::to_string(&b).unwrap() == ntxt => {}
						other => rep.violation("roundtrip:Notification", &format!("{ntxt} -> {other:?}"), json!({"kind":"Notification","text": ntxt})),
					}
					local.case(hash_of(&("notif", &ntxt)), true, "roundtrip:Notification");
				}
			}
		}
		// responses
		for (pi, p) in payloads.iter().enumerate() {
			if i >= 40 && (pi + i) % 5 != 0 {
				continue;
			}
			let raw = RawValue::from_string(p.clone()).unwrap();
			let rp: Response<Box<RawValue>> = Response::new(ResponsePayload::success(raw), id.clone());
			check_response(rep, local, &rp, id, Some(p), None);
			for c in codes {
				for data in [None, Some(p)] {
					// `"data":null`: judged separately (the parser maps a null data member to "no data")
					if data.map_or(false, |d| d == "null") {
						if c == -32000 && pi == 0 {
							let eo = ErrorObject::owned(c, "m", Some(RawValue::from_string("null".into()).unwrap()));
							let txt = serde_json::to_string(&eo).unwrap();
							let back = serde_json::from_str::<ErrorObjectOwned>(&txt);
							match back {
								Ok(b) if b == eo => {}
								Ok(b) if b.code() == c && b.message() == "m" && b.data().is_none() => rep.violation(
									"roundtrip:ErrorObject:data-null-becomes-absent",
									&format!("error object with data = JSON null serialises as {txt} and parses back without data (not equal, re-serialises differently)"),
									json!({"engine":"ENUM","part":"roundtrip","kind":"ErrorObject","text": txt}),
								),
								other => rep.violation("roundtrip:ErrorObject:unequal", &format!("{txt} -> {other:?}"), json!({"kind":"ErrorObject","text": txt})),
							}
							local.case(hash_of(&("eo-null", &txt)), true, "roundtrip:ErrorObject:data-null");
						}
						continue;
					}
					let eo = match data {
						None => ErrorObject::owned::<()>(c, format!("msg {}", m_of(pi)), None),
						Some(d) => ErrorObject::owned(c, "m\"\\", Some(RawValue::from_string(d.clone()).unwrap())),
					};
					let rp: Response<Box<RawValue>> = Response::new(ResponsePayload::error(eo.clone()), id.clone());
					check_response(rep, local, &rp, id, None, Some(&eo));
				}
			}
			// subscription payloads
			let sid = match id {
				Id::Null => continue,
				Id::Number(n) => SubscriptionId::Num(*n),
				Id::Str(s) => SubscriptionId::Str(s.clone()),
			};
			let sp = SubscriptionPayload { subscription: sid.clone(), result: RawValue::from_string(p.clone()).unwrap() };
			let n = Notification::new(Cow::Borrowed("sub_m"), sp);
			let txt = serde_json::to_string(&n).unwrap();
			match serde_json::from_str::<Notification<SubscriptionPayload<Box<RawValue>>>>(&txt) {
				Ok(b) if b.params.subscription == sid && b.params.result.get() == p && serde_json::to_string(&b).unwrap() == txt => {}
				other => rep.violation("roundtrip:SubscriptionPayload", &format!("{txt} -> {other:?}"), json!({"kind":"SubscriptionPayload","text": txt})),
			}
			local.case(hash_of(&("subpayload", &txt)), true, "roundtrip:SubscriptionPayload");
			let se = SubscriptionPayloadError { subscription: sid.clone(), error: RawValue::from_string(p.clone()).unwrap() };
			let n = Notification::new(Cow::Borrowed("sub_m"), se);
			let txt = serde_json::to_string(&n).unwrap();
			match serde_json::from_str::<Notification<SubscriptionPayloadError<Box<RawValue>>>>(&txt) {
				Ok(b) if b.params.subscription == sid && b.params.error.get() == p && serde_json::to_string(&b).unwrap() == txt => {}
				other => rep.violation("roundtrip:SubscriptionPayloadError", &format!("{txt} -> {other:?}"), json!({"kind":"SubscriptionPayloadError","text": txt})),
			}
			local.case(hash_of(&("subpayloaderr", &txt)), true, "roundtrip:SubscriptionPayloadError");
		}
	});
}

fn m_of(i: usize) -> &'static str {
	["", "x", "é\"", "\\"][i % 4]
}

fn check_response(rep: &Reporter, local: &mut Local, rp: &Response<Box<RawValue>>, id: &Id, result: Option<&String>, err: Option<&ErrorObjectOwned>) {
	let txt = serde_json::to_string(rp).unwrap();
	let class;
	match serde_json::from_str::<Response<Box<RawValue>>>(&txt) {
		Ok(b) => {
			let same = b.id == *id
				&& match (&b.payload, result, err) {
					(ResponsePayload::Success(r), Some(p), None) => r.get() == p,
					(ResponsePayload::Error(e), None, Some(eo)) => e == eo,
					_ => false,
				};
			if !same {
				class = "unequal";
				rep.violation("roundtrip:Response:unequal", &format!("{txt} parsed back as {b:?}"), json!({"engine":"ENUM","part":"roundtrip","kind":"Response","text": txt}));
			} else if serde_json::to_string(&b).unwrap() != txt {
				class = "bytes";
				rep.violation("roundtrip:Response:bytes", &format!("{txt} re-serialises differently"), json!({"kind":"Response","text": txt}));
			} else {
				class = "ok";
			}
		}
		Err(e) => {
			class = "reparse-failed";
			rep.violation("roundtrip:Response:reparse-failed", &format!("{txt}: {e}"), json!({"engine":"ENUM","part":"roundtrip","kind":"Response","text": txt}));
		}
	}
	match PJ::parse(txt.as_bytes()) {
		Some(o) => {
			if let Err(why) = wellformed_response(&o) {
				rep.violation("emit:Response:not-jsonrpc2", &format!("emitted response {txt}: {why}"), json!({"text": txt}));
			}
		}
		None => rep.violation("emit:Response:not-json", &format!("emitted response {txt} is not JSON"), json!({"text": txt})),
	}
	local.case(hash_of(&("resp", &txt)), true, &format!("roundtrip:Response:{class}"));
}

/// (c) response acceptor vs reference predicate over all member sequences
fn acceptor(rep: &Reporter) {
	// (member name, how the name is spelled in the text, value text): JSON escapes in names and strings are spellings
	// of the same member / value
	const M: [(&str, &str, &str); 18] = [
		("jsonrpc", "jsonrpc", "\"2.0\""),
		("jsonrpc", "jsonrpc", "null"),
		("jsonrpc", "jsonrpc", "\"1.0\""),
		("jsonrpc", "jsonrpc", "2"),
		("jsonrpc", "jsonrpc", "\"2\\u002e0\""),
		("id", "id", "1"),
		("id", "id", "null"),
		("id", "id", "\"x\""),
		("id", "id", "[1]"),
		("id", "id", "1.5"),
		("id", "id", "-1"),
		("id", "\\u0069d", "1"),
		("result", "result", "7"),
		("result", "result", "null"),
		("error", "error", "{\"code\":-32000,\"message\":\"e\"}"),
		("error", "error", "{\"code\":\"x\"}"),
		("unknown", "unknown", "1"),
		("error", "error", "{\"code\":1,\"message\":\"e\",\"data\":[1]}"),
	];
	let maxlen = if rep.tier.thorough() { 6 } else { 5 };
	let n = seq_count(M.len(), maxlen);
	par_for(rep, n, 4096, || (), |i, _, local| {
		let seq = seq_decode(i, M.len(), maxlen);
		let mut txt = String::from("{");
		for (k, mi) in seq.iter().enumerate() {
			if k > 0 {
				txt.push(',');
			}
			txt.push('"');
			txt.push_str(M[*mi].1);
			txt.push_str("\":");
			txt.push_str(M[*mi].2);
		}
		txt.push('}');
		// reference predicate
		let cnt = |name: &str| seq.iter().filter(|m| M[**m].0 == name).count();
		let first = |name: &str| seq.iter().find(|m| M[**m].0 == name).map(|m| M[*m].2);
		let id_ok = cnt("id") == 1 && matches!(first("id"), Some("1") | Some("null") | Some("\"x\""));
		let ver_ok = cnt("jsonrpc") == 0 || (cnt("jsonrpc") == 1 && matches!(first("jsonrpc"), Some("\"2.0\"") | Some("null") | Some("\"2\\u002e0\"")));
		let nres = cnt("result");
		let nerr = cnt("error");
		let payload_ok = (nres == 1 && nerr == 0) || (nres == 0 && nerr == 1 && first("error") != Some("{\"code\":\"x\"}"));
		let expect = id_ok && ver_ok && payload_ok;
		let got_v = serde_json::from_str::<Response<Value>>(&txt);
		let got_r = serde_json::from_str::<Response<&RawValue>>(&txt);
		let mut class = if expect { "accept" } else { "reject" };
		for (tname, got, detail) in [("Value", got_v.is_ok(), got_v.as_ref().err().map(|e| e.to_string())), ("RawValue", got_r.is_ok(), got_r.as_ref().err().map(|e| e.to_string()))] {
			if got != expect {
				class = "mismatch";
				// signature: which way + which feature of the text decides
				let feature = if !id_ok {
					if cnt("id") == 0 { "no-id" } else if cnt("id") > 1 { "duplicate-id" } else { "id-outside-domain" }
				} else if !ver_ok {
					if cnt("jsonrpc") > 1 { "duplicate-jsonrpc" } else { "bad-jsonrpc" }
				} else if !payload_ok {
					if nres + nerr == 0 { "no-payload" } else if nres >= 1 && nerr >= 1 { "result-and-error" } else if nres > 1 || nerr > 1 { "duplicate-payload" } else { "invalid-error-object" }
				} else {
					"valid-response"
				};
				rep.violation(
					&format!("acceptor:{}:{}", if got { "wrongly-accepted" } else { "wrongly-rejected" }, feature),
					&format!("Response<{tname}> parser {} {txt} ({detail:?}); reference says {}", if got { "accepts" } else { "rejects" }, if expect { "accept" } else { "reject" }),
					json!({"engine":"ENUM","part":"acceptor","text": txt, "expected_accept": expect, "observed_accept": got}),
				);
			}
		}
		if let (true, Ok(r)) = (expect, &got_v) {
			// the accepted value carries the members of the text
			let idtxt = first("id").unwrap();
			let id_match = serde_json::to_string(&r.id).unwrap() == idtxt;
			let pay_match = match &r.payload {
				ResponsePayload::Success(v) => nres == 1 && serde_json::to_string(v.as_ref()).unwrap() == first("result").unwrap(),
				ResponsePayload::Error(e) => nerr == 1 && e.code() as i64 == PJ::parse(first("error").unwrap().as_bytes()).and_then(|o| o.members("code").first().and_then(|c| c.to_value().as_i64())).unwrap_or(i64::MIN),
			};
			if !id_match || !pay_match {
				class = "wrong-content";
				rep.violation("acceptor:wrong-content", &format!("{txt} parsed as {r:?}"), json!({"engine":"ENUM","part":"acceptor","text": txt}));
			}
			// taking ownership of a parsed response changes nothing: same members, same bytes when written again
			if let Ok(again) = serde_json::from_str::<Response<Value>>(&txt) {
				let owned = again.into_owned();
				let (a, b) = (serde_json::to_string(r).unwrap_or_default(), serde_json::to_string(&owned).unwrap_or_default());
				if a != b || owned.jsonrpc.is_some() != r.jsonrpc.is_some() {
					class = "into-owned-differs";
					rep.violation(
						&format!("roundtrip:Response:into_owned:{}", if cnt("jsonrpc") == 0 { "no-version-member" } else { "with-version-member" }),
						&format!("{txt}: parsed and written again gives {a}; after into_owned() it gives {b}"),
						json!({"engine":"ENUM","part":"acceptor","text": txt}),
					);
				}
			}
		}
		local.case(i as u64, true, class);
		if i == 70000 {
			rep.sample(json!({"part":"acceptor","text": txt, "expected_accept": expect}));
		}
	});
}

pub fn check(rep: &Reporter) {
	rep.set_rule(
		"(a) every i32 code through ErrorCode::from/.code() and every defined kind through code()/from; (b) serialise→parse→equal→same bytes for Id/SubscriptionId over all strings of length ≤3 (thorough 4) over a 20-symbol alphabet (quote, backslash, controls, NUL, BMP, astral, combining) and u64 boundaries, Request/Notification/Response/ErrorObject/SubscriptionPayload over id × method × payload products; (c) Response parser vs reference predicate (and, for accepted texts, into_owned() changing neither members nor re-serialised bytes) on all member sequences of length ≤5 (thorough 6) over 18 members (incl. an escaped spelling of \"2.0\" and of the member name id). A case is distinct by its serialised text / member sequence / code; all cases are non-trivial (each exercises a serialiser or parser).",
	);
	rep.assume("serde_json is trusted as the JSON layer on both sides");
	codes(rep);
	roundtrips(rep);
	acceptor(rep);
	rep.sample(json!({"part":"codes","example":"ErrorCode::from(-32009).code() == -32009 && ErrorCode::from(ErrorCode::ServerIsBusy.code()) == ServerIsBusy"}));
	rep.sample(json!({"part":"roundtrip","example":"Id::Str(\"\\u0000\\\"é\") -> \"\\u0000\\\"é\" -> equal, same bytes"}));
}
