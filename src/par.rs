//! Tiny fork-join helper: every index of 0..n is visited exactly once.

use crate::report::{Local, Reporter};
use std::sync::atomic::{AtomicUsize, Ordering};

/// Run `f(i, &mut local)` for every `i in 0..n` on `rep.jobs` threads (dynamic chunks).
/// `mk` builds per-thread state (e.g. a tokio runtime) once per worker.
pub fn par_for<S, MK, F>(rep: &Reporter, n: usize, chunk: usize, mk: MK, f: F)
where
	MK: Fn() -> S + Sync,
	F: Fn(usize, &mut S, &mut Local) + Sync,
{
	let leg = rep.next_leg();
	par_for_leg(rep, leg, true, n, chunk, mk, f)
}

/// `numbered` = this call is an enumeration leg of its own (its cases are addressed as (leg, index) in replay files);
/// the level-synchronous BFS numbers itself once and runs its levels un-numbered.
pub fn par_for_leg<S, MK, F>(rep: &Reporter, leg: usize, numbered: bool, n: usize, chunk: usize, mk: MK, f: F)
where
	MK: Fn() -> S + Sync,
	F: Fn(usize, &mut S, &mut Local) + Sync,
{
	if numbered {
		if let Some((fleg, idx)) = &rep.replay_filter {
			// replay mode: only the recorded case of the recorded leg is evaluated
			if *fleg == leg && idx.len() == 1 && idx[0] < n {
				let mut st = mk();
				let mut local = Local::default();
				crate::report::set_case(leg, idx[0]);
				let r = std::panic::catch_unwind(std::panic::AssertUnwindSafe(|| f(idx[0], &mut st, &mut local)));
				if r.is_err() {
					let msgs = crate::sched::take_thread_panics();
					let msg = msgs.last().cloned().unwrap_or_else(|| "panic (no message captured)".into());
					let site = msg.split(':').next().unwrap_or("").rsplit('/').next().unwrap_or("").to_string();
					rep.violation(&format!("panic:{site}"), &format!("evaluating enumeration case {} of leg {leg} panicked: {msg}", idx[0]), serde_json::json!({"engine":"ENUM","panic": msg}));
				}
				crate::report::clear_case();
				rep.merge(local);
			}
			return;
		}
	}
	let next = AtomicUsize::new(0);
	let jobs = rep.jobs.max(1).min(n.max(1));
	crate::mem::leg_starts();
	std::thread::scope(|sc| {
		for _ in 0..jobs {
			sc.spawn(|| {
				crate::mem::mark_worker();
				let mut st = mk();
				let mut local = Local::default();
				loop {
					let lo = next.fetch_add(chunk, Ordering::Relaxed);
					if lo >= n || rep.fail_fast() {
						break;
					}
					let hi = (lo + chunk).min(n);
					for i in lo..hi {
						if rep.fail_fast() {
							break;
						}
						if numbered {
							crate::report::set_case(leg, i);
						}
						// a panic inside the code under test is a verdict about this case, not the end of the enumeration
						let r = std::panic::catch_unwind(std::panic::AssertUnwindSafe(|| f(i, &mut st, &mut local)));
						if r.is_err() {
							let msgs = crate::sched::take_thread_panics();
							let msg = msgs.last().cloned().unwrap_or_else(|| "panic (no message captured)".into());
							let site = msg.split(':').next().unwrap_or("").rsplit('/').next().unwrap_or("").to_string();
							rep.violation(&format!("panic:{site}"), &format!("evaluating enumeration case {i} of leg {leg} panicked: {msg}"), serde_json::json!({"engine":"ENUM","panic": msg}));
							local.case_unique("panicked");
							st = mk();
						}
					}
					crate::mem::backpressure();
				}
				if numbered {
					crate::report::clear_case();
				}
				crate::mem::flush();
				rep.merge(local);
			});
		}
	});
}

/// Mixed-radix decode: index -> digits (least significant first).
pub fn decode(mut idx: usize, radices: &[usize]) -> Vec<usize> {
	let mut out = Vec::with_capacity(radices.len());
	for &r in radices {
		out.push(idx % r);
		idx /= r;
	}
	out
}

pub fn product(radices: &[usize]) -> usize {
	radices.iter().product()
}

/// All sequences over an alphabet of size `a` with length 0..=maxlen: total count.
pub fn seq_count(a: usize, maxlen: usize) -> usize {
	(0..=maxlen).map(|l| a.pow(l as u32)).sum()
}

/// Decode the idx-th sequence (shortest first).
pub fn seq_decode(mut idx: usize, a: usize, maxlen: usize) -> Vec<usize> {
	for l in 0..=maxlen {
		let c = a.pow(l as u32);
		if idx < c {
			let mut out = Vec::with_capacity(l);
			for _ in 0..l {
				out.push(idx % a);
				idx /= a;
			}
			return out;
		}
		idx -= c;
	}
	panic!("seq_decode: index out of range");
}
