//! Tiny fork-join helper: every index of 0..n is visited exactly once.

use crate::report::{Local, Reporter};
use std::sync::atomic::{AtomicUsize, Ordering};

/// Run `f(i, &mut local)` for every `i in 0..n` on `rep.jobs` threads (dynamic chunks).
/// `mk` builds per-thread state (e.g. a tokio runtime) once per worker.
pub fn par_for<S, MK, F>(rep: &Reporter, n: usize, chunk: usize, mk: MK, f: F)
where
	MK: Fn() -> S + Sync,
	F: Fn(usize, &mut S, &mut Local) + Sync,
{
	let next = AtomicUsize::new(0);
	let jobs = rep.jobs.max(1).min(n.max(1));
	std::thread::scope(|sc| {
		for _ in 0..jobs {
			sc.spawn(|| {
				let mut st = mk();
				let mut local = Local::default();
				loop {
					let lo = next.fetch_add(chunk, Ordering::Relaxed);
					if lo >= n {
						break;
					}
					let hi = (lo + chunk).min(n);
					for i in lo..hi {
						f(i, &mut st, &mut local);
					}
					crate::mem::backpressure();
				}
				crate::mem::flush();
				rep.merge(local);
			});
		}
	});
}

/// Mixed-radix decode: index -> digits (least significant first).
pub fn decode(mut idx: usize, radices: &[usize]) -> Vec<usize> {
	let mut out = Vec::with_capacity(radices.len());
	for &r in radices {
		out.push(idx % r);
		idx /= r;
	}
	out
}

pub fn product(radices: &[usize]) -> usize {
	radices.iter().product()
}

/// All sequences over an alphabet of size `a` with length 0..=maxlen: total count.
pub fn seq_count(a: usize, maxlen: usize) -> usize {
	(0..=maxlen).map(|l| a.pow(l as u32)).sum()
}

/// Decode the idx-th sequence (shortest first).
pub fn seq_decode(mut idx: usize, a: usize, maxlen: usize) -> Vec<usize> {
	for l in 0..=maxlen {
		let c = a.pow(l as u32);
		if idx < c {
			let mut out = Vec::with_capacity(l);
			for _ in 0..l {
				out.push(idx % a);
				idx /= a;
			}
			return out;
		}
		idx -= c;
	}
	panic!("seq_decode: index out of range");
}
